// appended to src/lib.rs of a scratch copy
#[cfg(kani)]
mod kani_alloc_probe {
    use crate::sync::LocalManualResetEvent;
    extern crate alloc;
    use core::alloc::Layout;

    unsafe fn forbidden_alloc(_l: Layout) -> *mut u8 { panic!("allocation inside library call"); }

    #[kani::proof]
    #[kani::stub(alloc::alloc::alloc, forbidden_alloc)]
    fn no_alloc_probe() {
        let ev = LocalManualResetEvent::new(false);
        ev.set();
        let b: alloc::boxed::Box<u8> = alloc::boxed::Box::new(kani::any());
        assert!(*b == *b);
    }

    #[kani::proof]
    fn playback_probe() {
        let x: u8 = kani::any();
        let ev = LocalManualResetEvent::new(x > 3);
        assert!(!ev.is_set());
    }

    /// Test generated for harness `kani_alloc_probe::playback_probe`
    ///
    /// Check for `assertion`: "assertion failed: !ev.is_set()"

    #[test]
    fn kani_concrete_playback_playback_probe_2907816886244284452() {
        let concrete_vals: Vec<Vec<u8>> = vec![
        // 128
        vec![128],
    ];
    kani::concrete_playback_run(concrete_vals, playback_probe);
}
}
