// appended to src/intrusive_double_linked_list.rs of a scratch copy; plus the two cfg_attr lines on `remove`:
//   #[cfg_attr(kani, kani::requires(kani_spec::wf(self) && kani_spec::member_or_unlinked(self, node)))]
//   #[cfg_attr(kani, kani::ensures(|r: &bool| kani_spec::wf(self) && (!*r || kani_spec::unlinked(node))))]
#[cfg(kani)]
pub(crate) mod kani_spec {
    use super::*;
    pub const N: usize = 4;
    /// walk from head at most N steps; check prev/next consistency and tail
    pub fn wf<T>(l: &LinkedList<T>) -> bool {
        unsafe {
            let mut cur = l.head;
            let mut prev: Option<NonNull<ListNode<T>>> = None;
            let mut i = 0;
            while i <= N {
                match cur {
                    None => return l.tail == prev,
                    Some(c) => {
                        if c.as_ref().prev != prev { return false; }
                        prev = cur;
                        cur = c.as_ref().next;
                    }
                }
                i += 1;
            }
            false
        }
    }
    pub fn contains<T>(l: &LinkedList<T>, n: &ListNode<T>) -> bool {
        unsafe {
            let mut cur = l.head;
            let mut i = 0;
            while i <= N {
                match cur {
                    None => return false,
                    Some(c) => { if c.as_ptr() as *const _ == n as *const _ { return true; } cur = c.as_ref().next; }
                }
                i += 1;
            }
            false
        }
    }
    pub fn unlinked<T>(n: &ListNode<T>) -> bool { n.prev.is_none() && n.next.is_none() }
    pub fn member_or_unlinked<T>(l: &LinkedList<T>, n: &ListNode<T>) -> bool { contains(l, n) || (unlinked(n)) }

    #[kani::proof_for_contract(LinkedList::remove)]
    #[kani::unwind(7)]
    fn check_remove() {
        let mut nodes: [ListNode<u8>; N] = [ListNode::new(0), ListNode::new(1), ListNode::new(2), ListNode::new(3)];
        let k: usize = kani::any();
        kani::assume(k <= N - 1);
        let mut list = LinkedList::new();
        // build the canonical k-node list by direct link surgery
        let base = nodes.as_mut_ptr();
        let mut i = 0;
        while i < k {
            unsafe {
                (*base.add(i)).prev = if i > 0 { Some(NonNull::new_unchecked(base.add(i - 1))) } else { None };
                (*base.add(i)).next = if i + 1 < k { Some(NonNull::new_unchecked(base.add(i + 1))) } else { None };
            }
            i += 1;
        }
        if k > 0 { unsafe { list.head = Some(NonNull::new_unchecked(base)); list.tail = Some(NonNull::new_unchecked(base.add(k - 1))); } }
        let which: usize = kani::any();
        kani::assume(which < N);
        unsafe { list.remove(&mut *base.add(which)); }
    }
}
