use vstd::prelude::*;
verus! {
#[derive(PartialEq)]
enum PollState { New, Waiting, Notified, Done }
pub assume_specification[ <PollState as PartialEq>::eq ](a: &PollState, b: &PollState) -> (r: bool) ensures r == (*a == *b);
struct E { state: PollState, n: usize }
fn f(e: &mut E) -> (r: bool)
  ensures r == !(old(e).state is Notified), final(e).state is Notified
{
    if e.state != PollState::Notified { e.state = PollState::Notified; true } else { false }
}
}
fn main(){}
