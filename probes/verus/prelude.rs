use vstd::prelude::*;
use core::ops::{Deref, DerefMut};
use core::task::{Context, Poll, Waker};
verus! {

#[verifier::external_type_specification]
#[verifier::external_body]
pub struct ExWaker(Waker);

#[verifier::external_type_specification]
#[verifier::external_body]
pub struct ExContext<'a>(Context<'a>);

#[verifier::external_type_specification]
#[verifier::reject_recursive_types(T)]
pub struct ExPoll<T>(Poll<T>);

pub uninterp spec fn waker_id(w: &Waker) -> int;
pub uninterp spec fn cx_waker<'a>(cx: &Context<'a>) -> &'a Waker;

pub assume_specification<'a, 'b>[ Context::<'a>::waker ](cx: &'b Context<'a>) -> (r: &'a Waker)
    ensures r == cx_waker(cx);

pub assume_specification[ <Waker as Clone>::clone ](w: &Waker) -> (r: Waker)
    ensures waker_id(&r) == waker_id(w);

pub assume_specification[ Waker::wake ](w: Waker);
pub assume_specification[ Waker::wake_by_ref ](w: &Waker);

#[verifier::external_body]
pub fn update_waker_ref(waker_option: &mut Option<Waker>, cx: &Context)
    ensures (*final(waker_option)) is Some,
        waker_id(&(*final(waker_option))->0) == waker_id(cx_waker(cx)),
{
    unimplemented!()
}

// ---------------- intrusive list: specification only -----------------
#[verifier::external_body]
#[verifier::reject_recursive_types(T)]
pub struct ListNode<T> { data: T }

impl<T> ListNode<T> {
    pub uninterp spec fn id(&self) -> int;
    pub uninterp spec fn data(&self) -> T;
}

impl<T> Deref for ListNode<T> {
    type Target = T;
    #[verifier::external_body]
    fn deref(&self) -> (r: &T)
        ensures *r == self.data()
    { &self.data }
}

impl<T> DerefMut for ListNode<T> {
    #[verifier::external_body]
    fn deref_mut(&mut self) -> (r: &mut T)
        ensures *r == old(self).data(), final(self).data() == *final(r), final(self).id() == old(self).id()
    { &mut self.data }
}

#[verifier::external_body]
#[verifier::reject_recursive_types(T)]
pub struct LinkedList<T> { p: core::marker::PhantomData<T> }

pub open spec fn no_dup(s: Seq<int>) -> bool {
    forall|i: int, j: int| 0 <= i < s.len() && 0 <= j < s.len() && i != j ==> s[i] != s[j]
}

impl<T> LinkedList<T> {
    /// ids of linked nodes, newest (front) first, oldest (back) last
    pub uninterp spec fn ids(&self) -> Seq<int>;
    /// contents of every node this list has linked (ghost heap)
    pub uninterp spec fn heap(&self) -> Map<int, T>;

    pub open spec fn wf(&self) -> bool {
        no_dup(self.ids()) && forall|i: int| 0 <= i < self.ids().len() ==> self.heap().contains_key(#[trigger] self.ids()[i])
    }

    /// node is coherent with the ghost heap if, when linked, the heap entry is the node content
    pub open spec fn coherent(&self, n: &ListNode<T>) -> bool {
        self.ids().contains(n.id()) ==> self.heap().contains_key(n.id()) && self.heap()[n.id()] == n.data()
    }

    #[verifier::external_body]
    pub fn is_empty(&self) -> (r: bool) ensures r == (self.ids().len() == 0) { unimplemented!() }

    #[verifier::external_body]
    pub unsafe fn add_front(&mut self, node: &mut ListNode<T>)
        requires old(self).wf(), !old(self).ids().contains(old(node).id())
        ensures
            final(self).wf(),
            final(self).ids() == seq![old(node).id()] + old(self).ids(),
            forall|x: int| final(self).ids().contains(x) <==> (x == old(node).id() || old(self).ids().contains(x)),
            final(self).ids().last() == (if old(self).ids().len() > 0 { old(self).ids().last() } else { old(node).id() }),
            final(self).heap() == old(self).heap().insert(old(node).id(), old(node).data()),
            final(node).id() == old(node).id(),
            final(node).data() == old(node).data(),
    { unimplemented!() }

    #[verifier::external_body]
    pub unsafe fn remove(&mut self, node: &mut ListNode<T>) -> (r: bool)
        requires old(self).wf(),
        ensures
            final(self).wf(),
            r == old(self).ids().contains(old(node).id()),
            !r ==> final(self).ids() == old(self).ids(),
            r ==> final(self).ids() == old(self).ids().remove(old(self).ids().index_of(old(node).id())),
            r ==> 0 <= old(self).ids().index_of(old(node).id()) < old(self).ids().len(),
            !final(self).ids().contains(old(node).id()),
            forall|x: int| x != old(node).id() ==> (final(self).ids().contains(x) <==> old(self).ids().contains(x)),
            final(self).heap() == old(self).heap(),
            final(node).id() == old(node).id(),
            final(node).data() == old(node).data(),
    { unimplemented!() }

    #[verifier::external_body]
    pub fn peek_last_mut(&mut self) -> (r: Option<&mut ListNode<T>>)
        requires old(self).wf(),
        ensures
            final(self).wf(),
            final(self).ids() == old(self).ids(),
            old(self).ids().len() == 0 ==> r is None && final(self).heap() == old(self).heap(),
            old(self).ids().len() > 0 ==> r is Some
               && r->0.id() == old(self).ids().last()
               && r->0.data() == old(self).heap()[old(self).ids().last()]
               && final(r->0).id() == r->0.id()
               && final(self).heap() == old(self).heap().insert(old(self).ids().last(), final(r->0).data())
               && final(self).heap().contains_key(old(self).ids().last())
               && final(self).heap()[old(self).ids().last()] == final(r->0).data(),
    { unimplemented!() }

    #[verifier::external_body]
    pub fn remove_last(&mut self) -> (r: Option<&mut ListNode<T>>)
        requires old(self).wf(),
        ensures
            final(self).wf(),
            old(self).ids().len() == 0 ==> r is None && final(self).heap() == old(self).heap() && final(self).ids() == old(self).ids(),
            old(self).ids().len() > 0 ==> r is Some
               && r->0.id() == old(self).ids().last()
               && r->0.data() == old(self).heap()[old(self).ids().last()]
               && final(r->0).id() == r->0.id()
               && final(self).ids() == old(self).ids().drop_last()
               && final(self).heap() == old(self).heap().insert(old(self).ids().last(), final(r->0).data())
               && final(self).heap().contains_key(old(self).ids().last())
               && final(self).heap()[old(self).ids().last()] == final(r->0).data(),
    { unimplemented!() }
}
} // verus!
