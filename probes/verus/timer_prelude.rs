#![feature(sized_hierarchy)]
use vstd::prelude::*;
use core::ops::{Deref, DerefMut};
use core::ptr::NonNull;
use core::task::{Context, Poll, Waker};
verus! {

#[verifier::external_type_specification]
#[verifier::external_body]
pub struct ExWaker(Waker);
#[verifier::external_type_specification]
#[verifier::external_body]
pub struct ExContext<'a>(Context<'a>);
#[verifier::external_type_specification]
#[verifier::reject_recursive_types(T)]
pub struct ExPoll<T>(Poll<T>);
#[verifier::external_type_specification]
#[verifier::external_body]
#[verifier::reject_recursive_types(T)]
pub struct ExNonNull<T: core::marker::PointeeSized>(NonNull<T>);

pub uninterp spec fn waker_id(w: &Waker) -> int;
pub uninterp spec fn cx_waker<'a>(cx: &Context<'a>) -> &'a Waker;
pub assume_specification<'a, 'b>[ Context::<'a>::waker ](cx: &'b Context<'a>) -> (r: &'a Waker)
    ensures r == cx_waker(cx);
pub assume_specification[ <Waker as Clone>::clone ](w: &Waker) -> (r: Waker)
    ensures waker_id(&r) == waker_id(w);
pub assume_specification[ Waker::wake ](w: Waker);

#[verifier::external_body]
pub fn update_waker_ref(waker_option: &mut Option<Waker>, cx: &Context)
    ensures (*final(waker_option)) is Some,
        waker_id(&(*final(waker_option))->0) == waker_id(cx_waker(cx)),
{ unimplemented!() }

#[verifier::external_body]
#[verifier::reject_recursive_types(T)]
pub struct HeapNode<T> { data: T }

impl<T> HeapNode<T> {
    pub uninterp spec fn id(&self) -> int;
    pub uninterp spec fn data(&self) -> T;
}
impl<T> Deref for HeapNode<T> {
    type Target = T;
    #[verifier::external_body]
    fn deref(&self) -> (r: &T) ensures *r == self.data() { &self.data }
}
impl<T> DerefMut for HeapNode<T> {
    #[verifier::external_body]
    fn deref_mut(&mut self) -> (r: &mut T)
        ensures *r == old(self).data(), final(self).data() == *final(r), final(self).id() == old(self).id()
    { &mut self.data }
}

/// pointee snapshot of a pointer (value at the time the pointer was handed out)
pub uninterp spec fn nn_val<T: core::marker::PointeeSized>(p: NonNull<T>) -> &'static T;

pub mod nn_axioms {
use super::*;
pub uninterp spec fn same_val<T: core::marker::PointeeSized>(a: &T, b: &T) -> bool;
#[verifier::external_body]
pub broadcast proof fn same_val_sized<T>(a: &T, b: &T)
    ensures #[trigger] same_val(a, b) == (*a == *b)
{}
}
pub use nn_axioms::same_val;
pub assume_specification<'a, T: core::marker::PointeeSized>[ NonNull::<T>::as_mut ](p: &mut NonNull<T>) -> (r: &'a mut T)
    ensures same_val(&*r, nn_val(*old(p)));
pub assume_specification<'a, T: core::marker::PointeeSized>[ NonNull::<T>::as_ref ](p: &NonNull<T>) -> (r: &'a T)
    ensures equal(r, nn_val(*p));

#[verifier::external_body]
#[verifier::reject_recursive_types(T)]
pub struct PairingHeap<T> { p: core::marker::PhantomData<T> }

impl<T> PairingHeap<T> {
    pub uninterp spec fn members(&self) -> Set<int>;
    pub uninterp spec fn heap(&self) -> Map<int, T>;
    pub open spec fn wf(&self) -> bool { self.members().finite() && self.members().subset_of(self.heap().dom()) }
}
broadcast use nn_axioms::same_val_sized;
} // verus!
