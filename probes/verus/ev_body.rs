verus! {

impl<T> LinkedList<T> {
    #[verifier::external_body]
    pub fn reverse_drain<F>(&mut self, mut func: F)
    where
        F: FnMut(&mut ListNode<T>),
      requires old(self).wf(),
        forall|n: &mut ListNode<T>| #[trigger] func.requires((n,)),
      ensures final(self).wf(), final(self).ids().len() == 0,
        final(self).heap().dom() == old(self).heap().dom(),
        forall|id: int| !old(self).ids().contains(id) && old(self).heap().contains_key(id) ==> final(self).heap()[id] == old(self).heap()[id],
        forall|i: int| 0 <= i < old(self).ids().len() ==> exists|n: &mut ListNode<T>|
              n.id() == old(self).ids()[i] && n.data() == old(self).heap()[old(self).ids()[i]]
              && #[trigger] func.ensures((n,), ())
              && final(self).heap()[#[trigger] old(self).ids()[i]] == final(n).data(),
    { unimplemented!() }
}

#[derive(PartialEq)]
enum PollState { New, Waiting, Done }

struct WaitQueueEntry {
    task: Option<Waker>,
    state: PollState,
}

struct EventState {
    is_set: bool,
    waiters: LinkedList<WaitQueueEntry>,
}

impl EventState {
    spec fn ids(&self) -> Seq<int> { self.waiters.ids() }
    spec fn heap(&self) -> Map<int, WaitQueueEntry> { self.waiters.heap() }
    spec fn inv(&self) -> bool {
        &&& self.waiters.wf()
        &&& (self.is_set ==> self.ids().len() == 0)
        &&& forall|i: int| 0 <= i < self.ids().len() ==> (#[trigger] self.heap()[self.ids()[i]]).state is Waiting
    }

    fn reset(&mut self)
      requires old(self).inv(),
      ensures final(self).inv(), !final(self).is_set, final(self).ids() == old(self).ids(), final(self).heap() == old(self).heap(),
    {
        self.is_set = false;
    }

    fn set(&mut self)
      requires old(self).inv(),
      ensures final(self).inv(), final(self).is_set,
        final(self).ids().len() == 0,
        // C14 latch: every waiter queued at set() time is marked Done with its waker taken
        !old(self).is_set ==> forall|i: int| 0 <= i < old(self).ids().len() ==>
            (#[trigger] final(self).heap()[old(self).ids()[i]]).state is Done
            && final(self).heap()[old(self).ids()[i]].task is None,
        old(self).is_set ==> final(self).heap() == old(self).heap(),
    {
        if self.is_set != true {
            self.is_set = true;

            // Use a reverse iterator, so that the oldest waiter gets
            // scheduled first
            self.waiters.reverse_drain(|waiter: &mut ListNode<WaitQueueEntry>|
              ensures final(waiter).data().state is Done, final(waiter).data().task is None, final(waiter).id() == old(waiter).id(),
            {
                if let Some(handle) = waiter.task.take() {
                    handle.wake();
                }
                waiter.state = PollState::Done;
            });
        }
    }
}
}
fn main(){}
