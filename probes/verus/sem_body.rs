verus! {

#[derive(PartialEq)]
enum PollState { New, Waiting, Notified, Done }

struct WaitQueueEntry {
    task: Option<Waker>,
    state: PollState,
    required_permits: usize,
}

struct SemaphoreState {
    is_fair: bool,
    permits: usize,
    waiters: LinkedList<WaitQueueEntry>,
}

impl SemaphoreState {
    spec fn ids(&self) -> Seq<int> { self.waiters.ids() }
    spec fn heap(&self) -> Map<int, WaitQueueEntry> { self.waiters.heap() }

    spec fn dom_ok(&self) -> bool {
        self.waiters.wf()
    }

    /// Wakes up the last waiter and removes it from the wait queue
    fn wakeup_waiters(&mut self)
      requires old(self).dom_ok(),
      ensures final(self).dom_ok(),
        final(self).permits == old(self).permits,
        final(self).is_fair == old(self).is_fair,
        // C06: afterwards the oldest queued request either does not fit, or somebody holds a wake-up
        final(self).ids().len() > 0 ==>
           final(self).heap()[final(self).ids().last()].required_permits > final(self).permits
           || exists|id: int| final(self).heap().contains_key(id) && (#[trigger] final(self).heap()[id]).state is Notified,
    {
        // Wake as many tasks as the permits allow
        let mut available = self.permits;

        loop
          invariant self.dom_ok(), self.permits == old(self).permits, self.is_fair == old(self).is_fair,
            available <= self.permits,
            available < self.permits ==> exists|id: int| self.heap().contains_key(id) && (#[trigger] self.heap()[id]).state is Notified,
          decreases self.ids().len(),
        {
            match self.waiters.peek_last_mut() {
                None => return,
                Some(last_waiter) => {
                    // Check if enough permits are available for this waiter.
                    // If not then a wakeup attempt won't be successful.
                    if available < last_waiter.required_permits {
                        return;
                    }
                    available -= last_waiter.required_permits;

                    // Notify the waiter that it can try to acquire the semaphore again.
                    // The notification gets tracked inside the waiter.
                    // If the waiter aborts it's wait (drops the future), another task
                    // must be woken.
                    if last_waiter.state != PollState::Notified {
                        last_waiter.state = PollState::Notified;

                        let task = &last_waiter.task;
                        if let Some(ref handle) = task {
                            handle.wake_by_ref();
                        }
                    }

                    // In the case of a non-fair semaphore, the waiters are directly
                    // removed from the semaphores wait queue when woken.
                    // That avoids having to remove the wait element later.
                    if !self.is_fair {
                        self.waiters.remove_last();
                    } else {
                        // For a fair Semaphore we never wake more than 1 task.
                        // That one needs to acquire the Semaphore.
                        // TODO: We actually should be able to wake more, since
                        // it's guaranteed that both tasks could make progress.
                        // However the we currently can't peek iterate in reverse order.
                        return;
                    }
                }
            }
        }
    }
}
}
fn main(){}
