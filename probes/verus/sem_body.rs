verus! {

#[derive(PartialEq)]
enum PollState { New, Waiting, Notified, Done }
pub assume_specification[ <PollState as PartialEq>::eq ](a: &PollState, b: &PollState) -> (r: bool) ensures r == (*a == *b);

struct WaitQueueEntry {
    task: Option<Waker>,
    state: PollState,
    required_permits: usize,
}

struct SemaphoreState {
    is_fair: bool,
    permits: usize,
    waiters: LinkedList<WaitQueueEntry>,
}

impl SemaphoreState {
    spec fn ids(&self) -> Seq<int> { self.waiters.ids() }
    spec fn heap(&self) -> Map<int, WaitQueueEntry> { self.waiters.heap() }

    spec fn inv(&self) -> bool {
        &&& self.waiters.wf()
        &&& forall|i: int| 0 <= i < self.ids().len() ==>
              ((#[trigger] self.heap()[self.ids()[i]]).state is Waiting) || (self.is_fair && i == self.ids().len() - 1 && self.heap()[self.ids()[i]].state is Notified)
    }

    /// C06: f = live futures holding an unconsumed wake-up outside the queue (unfair mode only)
    spec fn inv_wake(&self, f: int) -> bool {
        self.ids().len() > 0 ==> {
            let head = self.heap()[self.ids().last()];
            head.required_permits > self.permits || (if self.is_fair { head.state is Notified } else { f >= 1 })
        }
    }

    /// Wakes up the last waiter and removes it from the wait queue
    fn wakeup_waiters(&mut self)
      requires old(self).inv(),
      ensures final(self).inv(),
        final(self).permits == old(self).permits,
        final(self).is_fair == old(self).is_fair,
        final(self).ids().len() <= old(self).ids().len(),
        final(self).is_fair ==> final(self).ids() == old(self).ids(),
        // [C06] establishes the wake-up invariant, counting the waiters it just notified and unlinked
        forall|g: int| g >= old(self).ids().len() - final(self).ids().len() ==> #[trigger] final(self).inv_wake(g),
    {
        // Wake as many tasks as the permits allow
        let mut available = self.permits;

        loop
          invariant self.inv(), self.permits == old(self).permits, self.is_fair == old(self).is_fair,
            available <= self.permits,
            self.ids().len() <= old(self).ids().len(),
            self.ids().len() == old(self).ids().len() ==> available == self.permits,
            self.is_fair ==> self.ids() == old(self).ids(),
          decreases self.ids().len(),
        {
            match self.waiters.peek_last_mut() {
                None => return,
                Some(last_waiter) => {
                    // Check if enough permits are available for this waiter.
                    // If not then a wakeup attempt won't be successful.
                    if available < last_waiter.required_permits {
                        return;
                    }
                    available -= last_waiter.required_permits;

                    // Notify the waiter that it can try to acquire the semaphore again.
                    // The notification gets tracked inside the waiter.
                    // If the waiter aborts it's wait (drops the future), another task
                    // must be woken.
                    if last_waiter.state != PollState::Notified {
                        last_waiter.state = PollState::Notified;

                        let task = &last_waiter.task;
                        if let Some(ref handle) = task {
                            handle.wake_by_ref();
                        }
                    }

                    // In the case of a non-fair semaphore, the waiters are directly
                    // removed from the semaphores wait queue when woken.
                    // That avoids having to remove the wait element later.
                    if !self.is_fair {
                        self.waiters.remove_last();
                    } else {
                        // For a fair Semaphore we never wake more than 1 task.
                        // That one needs to acquire the Semaphore.
                        // TODO: We actually should be able to wake more, since
                        // it's guaranteed that both tasks could make progress.
                        // However the we currently can't peek iterate in reverse order.
                        return;
                    }
                }
            }
        }
    }

    /// Releases a certain amount of permits back to the semaphore
    fn release(&mut self, permits: usize)
      requires old(self).inv(), old(self).permits + permits <= usize::MAX,
      ensures final(self).inv(), final(self).permits == old(self).permits + permits,
        final(self).is_fair == old(self).is_fair,
        // [C06]
        permits > 0 ==> forall|g: int| g >= old(self).ids().len() - final(self).ids().len() ==> #[trigger] final(self).inv_wake(g),
    {
        if permits == 0 {
            return;
        }
        // TODO: Overflow check
        self.permits += permits;

        // Wakeup the last waiter
        self.wakeup_waiters();
    }
}
}
fn main(){}
