use vstd::prelude::*;
use std::collections::VecDeque;
verus! {
pub struct FixedHeapBuf<T> { buffer: VecDeque<T>, cap: usize }
impl<T> FixedHeapBuf<T> {
    fn can_push(&self) -> (r: bool) ensures r == (self.buffer@.len() != self.cap) { self.buffer.len() != self.cap }
    fn push(&mut self, value: T)
      requires old(self).buffer@.len() != old(self).cap
      ensures final(self).buffer@ == old(self).buffer@.push(value)
    {
        assert!(self.can_push());
        self.buffer.push_back(value);
    }
    fn pop(&mut self) -> (r: T)
      requires old(self).buffer@.len() > 0
      ensures r == old(self).buffer@[0], final(self).buffer@ == old(self).buffer@.subrange(1, old(self).buffer@.len() as int)
    {
        assert!(self.buffer.len() > 0);
        self.buffer.pop_front().unwrap()
    }
}
pub trait Clock { fn now(&self) -> u64; }
struct TimerState { clock: &'static dyn Clock }
impl TimerState { fn f(&self) -> u64 { self.clock.now() } }
}
fn main(){}
