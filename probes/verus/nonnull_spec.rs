#![feature(sized_hierarchy)]
use vstd::prelude::*;
use core::ptr::NonNull;
verus! {
pub struct HeapNode<T> { pub data: T }

#[verifier::external_type_specification]
#[verifier::external_body]
#[verifier::reject_recursive_types(T)]
pub struct ExNonNull<T: core::marker::PointeeSized>(NonNull<T>);

pub uninterp spec fn nn_id<T>(p: NonNull<T>) -> int;

pub assume_specification<'a, T: core::marker::PointeeSized>[ NonNull::<T>::as_mut ](p: &mut NonNull<T>) -> (r: &'a mut T)
  ;

pub assume_specification<'a, T: core::marker::PointeeSized>[ NonNull::<T>::as_ref ](p: &NonNull<T>) -> (r: &'a T)
  ;

fn peek(p: Option<NonNull<HeapNode<u64>>>) -> Option<u64> {
    unsafe { p.map(|first| first.as_ref().data) }
}
fn peek2(p: Option<NonNull<HeapNode<u64>>>) {
    let mut q = p;
    while let Some(mut first) = q 
      decreases 0int
    {
        unsafe {
            let entry = first.as_mut();
            entry.data = 5;
        }
        q = None;
    }
}
}
fn main(){}
