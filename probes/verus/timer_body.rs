verus! {
pub trait Clock: Sync {
    fn now(&self) -> u64;
}

#[derive(PartialEq)]
enum PollState { Unregistered, Registered, Expired }

struct TimerQueueEntry {
    expiry: u64,
    task: Option<Waker>,
    state: PollState,
}

impl PairingHeap<TimerQueueEntry> {
    #[verifier::external_body]
    unsafe fn insert(&mut self, node: &mut HeapNode<TimerQueueEntry>)
      requires old(self).wf(), !old(self).members().contains(old(node).id()),
      ensures final(self).wf(), final(self).members() == old(self).members().insert(old(node).id()),
        final(self).heap() == old(self).heap().insert(old(node).id(), old(node).data()),
        final(node).id() == old(node).id(), final(node).data() == old(node).data(),
    { unimplemented!() }

    #[verifier::external_body]
    fn peek_min(&self) -> (r: Option<NonNull<HeapNode<TimerQueueEntry>>>)
      requires self.wf(),
      ensures r is None <==> self.members().len() == 0,
        r is Some ==> self.members().contains(nn_val(r->0).id()) && nn_val(r->0).data() == self.heap()[nn_val(r->0).id()]
            && forall|m: int| self.members().contains(m) ==> nn_val(r->0).data().expiry <= (#[trigger] self.heap()[m]).expiry,
    { unimplemented!() }

    #[verifier::external_body]
    unsafe fn remove(&mut self, node: &mut HeapNode<TimerQueueEntry>)
      requires old(self).wf(), old(self).members().contains(old(node).id()),
      ensures final(self).wf(), final(self).members() == old(self).members().remove(old(node).id()),
        final(self).heap() == old(self).heap().insert(old(node).id(), old(node).data()),
        final(node).id() == old(node).id(), final(node).data() == old(node).data(),
    { unimplemented!() }
}

struct TimerState {
    clock: &'static dyn Clock,
    waiters: PairingHeap<TimerQueueEntry>,
}

impl TimerState {
    fn next_expiration(&self) -> (r: Option<u64>)
      requires self.waiters.wf(),
      ensures r is None <==> self.waiters.members().len() == 0,
        r is Some ==> exists|m: int| self.waiters.members().contains(m) && self.waiters.heap()[m].expiry == r->0,
        r is Some ==> forall|m: int| self.waiters.members().contains(m) ==> r->0 <= (#[trigger] self.waiters.heap()[m]).expiry,
    {
        // Safety: We ensure that any node in the heap remains alive
        unsafe { self.waiters.peek_min().map(|first: NonNull<HeapNode<TimerQueueEntry>>| -> (e: u64) ensures e == nn_val(first).data().expiry { first.as_ref().expiry }) }
    }

    /// Checks whether any of the attached Futures is expired
    fn check_expirations(&mut self)
      requires old(self).waiters.wf(),
      ensures final(self).waiters.wf(),
        final(self).waiters.members().subset_of(old(self).waiters.members()),
    {
        let now = self.clock.now();
        while let Some(mut first) = self.waiters.peek_min()
          invariant self.waiters.wf(), self.waiters.members().subset_of(old(self).waiters.members()),
          decreases self.waiters.members().len(),
        {
            // Safety: We ensure that any node in the heap remains alive
            unsafe {
                let entry = first.as_mut();
                let first_expiry = entry.expiry;
                if now >= first_expiry {
                    // The timer is expired.
                    entry.state = PollState::Expired;
                    if let Some(task) = entry.task.take() {
                        task.wake();
                    }
                } else {
                    // Remaining timers are not expired
                    break;
                }

                // Remove the expired timer
                self.waiters.remove(entry);
            }
        }
    }
}
}
fn main(){}
