use vstd::prelude::*;
verus! {
pub trait RingBuf: Sized {
    type Item;
    spec fn view(&self) -> Seq<Self::Item>;
    spec fn cap(&self) -> nat;

    fn new() -> (r: Self) ensures r.view().len() == 0;
    fn with_capacity(cap: usize) -> Self;
    fn capacity(&self) -> (r: usize) ensures r == self.cap();
    fn len(&self) -> (r: usize) ensures r == self.view().len();
    fn is_empty(&self) -> (r: bool) ensures r == (self.view().len() == 0)
    {
        self.len() == 0
    }
    fn can_push(&self) -> (r: bool) ensures r == (self.view().len() < self.cap());
    fn push(&mut self, item: Self::Item)
        requires old(self).view().len() < old(self).cap()
        ensures final(self).view() == old(self).view().push(item), final(self).cap() == old(self).cap();
    fn pop(&mut self) -> (r: Self::Item)
        requires old(self).view().len() > 0
        ensures r == old(self).view()[0], final(self).view() == old(self).view().subrange(1, old(self).view().len() as int), final(self).cap() == old(self).cap();
}

#[verifier::reject_recursive_types(T)]
#[verifier::reject_recursive_types(A)]
struct ChannelState<T, A>
where
    A: RingBuf<Item = T>,
{
    is_closed: bool,
    buffer: A,
}

impl<T, A> ChannelState<T, A>
where
    A: RingBuf<Item = T>,
{
    fn clear(&mut self)
      ensures final(self).buffer.view().len() == 0
    {
        while !self.buffer.is_empty() 
          invariant true
          decreases self.buffer.view().len()
        {
            self.buffer.pop();
        }
    }
    fn try_send(&mut self, value: T) -> (r: Result<(), T>)
      ensures r is Ok ==> final(self).buffer.view() == old(self).buffer.view().push(value),
    {
        if self.is_closed {
            Err(value)
        } else if self.buffer.can_push() {
            self.buffer.push(value);
            Ok(())
        } else {
            Err(value)
        }
    }
}
}
fn main(){}
