use vstd::prelude::*;
verus! {
struct E { s: u8, t: Option<u64> }

#[verifier::external_body]
fn apply<F: FnMut(&mut E)>(e: &mut E, mut f: F)
    requires forall|x: &mut E| #[trigger] f.requires((x,)) 
    ensures exists |x: &mut E| *x == *old(e) && *final(x) == *final(e) && #[trigger] f.ensures((x,), ())
{ f(e) }

fn test(e: &mut E) 
  ensures final(e).s == 3
{
    apply(e, |w: &mut E| ensures final(w).s == 3 { w.s = 3; });
}
}
fn main(){}
