verus! {

#[derive(PartialEq)]
enum PollState { New, Waiting, Notified, Done }

struct WaitQueueEntry {
    task: Option<Waker>,
    state: PollState,
}

struct MutexState {
    is_fair: bool,
    is_locked: bool,
    waiters: LinkedList<WaitQueueEntry>,
}

spec fn entry_ok(e: WaitQueueEntry, is_fair: bool, is_last: bool) -> bool {
    (e.state is Waiting) || (is_fair && is_last && e.state is Notified)
}

impl MutexState {
    spec fn ids(&self) -> Seq<int> { self.waiters.ids() }
    spec fn heap(&self) -> Map<int, WaitQueueEntry> { self.waiters.heap() }

    spec fn inv_h(&self, h: Map<int, WaitQueueEntry>) -> bool {
        let ids = self.ids();
        &&& self.waiters.wf()
        &&& forall|i: int| 0 <= i < ids.len() ==> h.contains_key(#[trigger] ids[i]) && entry_ok(h[ids[i]], self.is_fair, i == ids.len() - 1)
        &&& (self.is_fair && ids.len() > 0 ==> (h[ids.last()].state is Notified <==> !self.is_locked))
    }
    spec fn inv(&self) -> bool { self.inv_h(self.heap()) }

    spec fn mheap(&self, n: &ListNode<WaitQueueEntry>) -> Map<int, WaitQueueEntry> {
        if self.ids().contains(n.id()) { self.heap().insert(n.id(), n.data()) } else { self.heap() }
    }
    spec fn inv_m(&self, n: &ListNode<WaitQueueEntry>) -> bool { self.inv_h(self.mheap(n)) }

    /// C03 wake-up invariant; f = number of live futures that hold an unconsumed wake-up outside the queue (unfair mode)
    spec fn inv_wake(&self, h: Map<int, WaitQueueEntry>, f: int) -> bool {
        !self.is_locked && self.ids().len() > 0 ==>
            (if self.is_fair { h[self.ids().last()].state is Notified } else { f >= 1 })
    }
    spec fn floating(&self, n: &ListNode<WaitQueueEntry>) -> bool {
        n.data().state is Notified && !self.is_fair
    }

    spec fn node_ok(&self, n: &ListNode<WaitQueueEntry>) -> bool {
        match n.data().state {
            PollState::New | PollState::Done => !self.ids().contains(n.id()),
            PollState::Waiting => self.ids().contains(n.id()),
            PollState::Notified => (self.is_fair <==> self.ids().contains(n.id())),
        }
    }

    fn return_last_waiter(&mut self) -> (r: Option<Waker>)
      requires old(self).waiters.wf(),
        forall|i: int| 0 <= i < old(self).ids().len() ==> old(self).heap().contains_key(#[trigger] old(self).ids()[i]),
      ensures
        final(self).waiters.wf(),
        final(self).is_fair == old(self).is_fair,
        final(self).is_locked == old(self).is_locked,
        old(self).ids().len() == 0 ==> r is None && final(self).ids() == old(self).ids() && final(self).heap() == old(self).heap(),
        old(self).ids().len() > 0 ==> {
            let id = old(self).ids().last();
            &&& r == old(self).heap()[id].task
            &&& final(self).heap() == old(self).heap().insert(id, WaitQueueEntry { task: None, state: PollState::Notified })
            &&& (old(self).is_fair ==> final(self).ids() == old(self).ids())
            &&& (!old(self).is_fair ==> final(self).ids() == old(self).ids().drop_last())
        },
    {
        let last_waiter = if self.is_fair {
            self.waiters.peek_last_mut()
        } else {
            self.waiters.remove_last()
        };

        if let Some(last_waiter) = last_waiter {
            // Notify the waiter that it can try to lock the mutex again.
            // The notification gets tracked inside the waiter.
            // If the waiter aborts it's wait (drops the future), another task
            // must be woken.
            last_waiter.state = PollState::Notified;

            let task = &mut last_waiter.task;
            return task.take();
        }

        None
    }

    fn is_locked(&self) -> (r: bool) ensures r == self.is_locked {
        self.is_locked
    }

    fn unlock(&mut self) -> (r: Option<Waker>)
      requires old(self).inv(),
      ensures final(self).inv(),
        final(self).is_fair == old(self).is_fair,
        !final(self).is_locked,
        // C03: when waiters are queued at unlock time, the oldest one is handed the wake-up
        old(self).is_locked && old(self).ids().len() > 0 ==> {
            let id = old(self).ids().last();
            &&& r == old(self).heap()[id].task
            &&& final(self).heap()[id].state is Notified
            &&& final(self).heap() == old(self).heap().insert(id, WaitQueueEntry { task: None, state: PollState::Notified })
            &&& (old(self).is_fair ==> final(self).ids() == old(self).ids())
            &&& (!old(self).is_fair ==> final(self).ids() == old(self).ids().drop_last())
        },
        !(old(self).is_locked && old(self).ids().len() > 0) ==> r is None && final(self).ids() == old(self).ids() && final(self).heap() == old(self).heap(),
        // [C03] inductive step of the wake-up invariant
        forall|f: int| f >= 0 && old(self).inv_wake(old(self).heap(), f) ==> final(self).inv_wake(final(self).heap(),
            f + (if !old(self).is_fair && old(self).is_locked && old(self).ids().len() > 0 { 1int } else { 0 })),
    {
        if self.is_locked {
            self.is_locked = false;
            // TODO: Does this require a memory barrier for the actual data,
            // or is this covered by unlocking the mutex which protects the data?
            // Wakeup the last waiter
            self.return_last_waiter()
        } else {
            None
        }
    }

    fn try_lock_sync(&mut self) -> (r: bool)
      requires old(self).inv(),
      ensures final(self).inv(),
        r == (!old(self).is_locked && (!old(self).is_fair || old(self).ids().len() == 0)),
        r ==> final(self).is_locked,
        !r ==> final(self).is_locked == old(self).is_locked,
        final(self).ids() == old(self).ids(),
        final(self).heap() == old(self).heap(),
        final(self).is_fair == old(self).is_fair,
        forall|f: int| old(self).inv_wake(old(self).heap(), f) ==> final(self).inv_wake(final(self).heap(), f),
    {
        // The lock can only be obtained synchronously if
        // - it is not locked
        // - the Semaphore is either not fair, or there are no waiters
        // - required_permits == 0
        if !self.is_locked && (!self.is_fair || self.waiters.is_empty()) {
            self.is_locked = true;
            true
        } else {
            false
        }
    }

    unsafe fn try_lock(
        &mut self,
        wait_node: &mut ListNode<WaitQueueEntry>,
        cx: &mut Context<'_>,
    ) -> (r: Poll<()>)
      requires old(self).inv(), old(self).node_ok(old(wait_node)), old(self).waiters.coherent(old(wait_node)),
        !(old(wait_node).data().state is Done),
      ensures
        final(self).inv_m(final(wait_node)), final(self).node_ok(final(wait_node)),
        final(wait_node).id() == old(wait_node).id(),
        final(self).is_fair == old(self).is_fair,
        // C02
        r is Ready ==> !old(self).is_locked && final(self).is_locked && final(wait_node).data().state is Done,
        r is Pending ==> final(self).is_locked == old(self).is_locked,
        // C04: in fair mode a completion never overtakes an older queued waiter
        r is Ready && old(self).is_fair ==> old(self).ids().len() == 0 || old(self).ids().last() == old(wait_node).id(),
        // C03: a pending future is queued with the waker of this poll
        r is Pending ==> final(wait_node).data().state is Waiting
            && final(wait_node).data().task is Some
            && waker_id(&final(wait_node).data().task->0) == waker_id(cx_waker(old(cx))),
        // [C03] inductive step: a floating notified future consumes its wake-up when polled
        forall|f: int| f >= (if old(self).floating(old(wait_node)) { 1int } else { 0 }) && old(self).inv_wake(old(self).heap(), f)
            ==> final(self).inv_wake(final(self).mheap(final(wait_node)), f - (if old(self).floating(old(wait_node)) { 1int } else { 0 })),
        // frame: other queue members are untouched and keep their order
        forall|id: int| id != old(wait_node).id() ==> (final(self).heap().contains_key(id) <==> old(self).heap().contains_key(id)),
        forall|id: int| id != old(wait_node).id() && old(self).heap().contains_key(id) ==> final(self).heap()[id] == old(self).heap()[id],
        final(self).ids() == old(self).ids()
          || (!old(self).ids().contains(old(wait_node).id()) && final(self).ids() == seq![old(wait_node).id()] + old(self).ids())
          || (old(self).ids().contains(old(wait_node).id()) && final(self).ids() == old(self).ids().remove(old(self).ids().index_of(old(wait_node).id()))),
    {
        match wait_node.state {
            PollState::New => {
                // The fast path - the Mutex isn't locked by anyone else.
                // If the mutex is fair, noone must be in the wait list before us.
                if self.try_lock_sync() {
                    wait_node.state = PollState::Done;
                    Poll::Ready(())
                } else {
                    // Add the task to the wait queue
                    wait_node.task = Some(cx.waker().clone());
                    wait_node.state = PollState::Waiting;
                    self.waiters.add_front(wait_node);
                    Poll::Pending
                }
            }
            PollState::Waiting => {
                // The MutexLockFuture is already in the queue.
                if self.is_fair {
                    // The task needs to wait until it gets notified in order to
                    // maintain the ordering. However the caller might have
                    // passed a different `Waker`. In this case we need to update it.
                    update_waker_ref(&mut wait_node.task, cx);
                    Poll::Pending
                } else {
                    // For throughput improvement purposes, grab the lock immediately
                    // if it's available.
                    if !self.is_locked {
                        self.is_locked = true;
                        wait_node.state = PollState::Done;
                        // Since this waiter has been registered before, it must
                        // get removed from the waiter list.
                        // Safety: Due to the state, we know that the node must be part
                        // of the waiter list
                        self.force_remove_waiter(wait_node);
                        Poll::Ready(())
                    } else {
                        // The caller might have passed a different `Waker`.
                        // In this case we need to update it.
                        update_waker_ref(&mut wait_node.task, cx);
                        Poll::Pending
                    }
                }
            }
            PollState::Notified => {
                // We had been woken by the mutex, since the mutex is available again.
                // The mutex thereby removed us from the waiters list.
                // Just try to lock again. If the mutex isn't available,
                // we need to add it to the wait queue again.
                if !self.is_locked {
                    if self.is_fair {
                        // In a fair Mutex, the WaitQueueEntry is kept in the
                        // linked list and must be removed here
                        // Safety: Due to the state, we know that the node must be part
                        // of the waiter list
                        self.force_remove_waiter(wait_node);
                    }
                    self.is_locked = true;
                    wait_node.state = PollState::Done;
                    Poll::Ready(())
                } else {
                    // Fair mutexes should always be able to acquire the lock
                    // after they had been notified
                    debug_assert!(!self.is_fair);
                    // Add to queue
                    wait_node.task = Some(cx.waker().clone());
                    wait_node.state = PollState::Waiting;
                    self.waiters.add_front(wait_node);
                    Poll::Pending
                }
            }
            PollState::Done => {
                // The future had been polled to completion before
                panic!("polled Mutex after completion");
            }
        }
    }

    /// Tries to remove a waiter from the wait queue, and panics if the
    /// waiter is no longer valid.
    unsafe fn force_remove_waiter(
        &mut self,
        wait_node: &mut ListNode<WaitQueueEntry>,
    )
      requires old(self).waiters.wf(), old(self).ids().contains(old(wait_node).id()),
      ensures final(self).waiters.wf(),
        final(self).ids() == old(self).ids().remove(old(self).ids().index_of(old(wait_node).id())),
        0 <= old(self).ids().index_of(old(wait_node).id()) < old(self).ids().len(),
        !final(self).ids().contains(old(wait_node).id()),
        forall|x: int| x != old(wait_node).id() ==> (final(self).ids().contains(x) <==> old(self).ids().contains(x)),
        final(self).heap() == old(self).heap(),
        final(self).is_fair == old(self).is_fair, final(self).is_locked == old(self).is_locked,
        final(wait_node).id() == old(wait_node).id(), final(wait_node).data() == old(wait_node).data(),
    {
        if !self.waiters.remove(wait_node) {
            // Panic if the address isn't found. This can only happen if the contract was
            // violated, e.g. the WaitQueueEntry got moved after the initial poll.
            panic!("Future could not be removed from wait queue");
        }
    }

    fn remove_waiter(
        &mut self,
        wait_node: &mut ListNode<WaitQueueEntry>,
    ) -> (r: Option<Waker>)
      requires old(self).inv(), old(self).node_ok(old(wait_node)), old(self).waiters.coherent(old(wait_node)),
      ensures
        final(self).inv(),
        // C01: after the future's destructor ran, the queue no longer refers to it
        !final(self).ids().contains(old(wait_node).id()),
        final(wait_node).id() == old(wait_node).id(),
        final(wait_node).data().state is Done || final(wait_node).data().state is New,
        final(self).is_fair == old(self).is_fair,
        final(self).is_locked == old(self).is_locked,
        // C03: a dropped future that held the wake-up passes it to the oldest remaining waiter
        old(wait_node).data().state is Notified && final(self).ids().len() > 0 && old(self).is_fair ==>
            final(self).heap()[final(self).ids().last()].state is Notified,
        old(wait_node).data().state is Notified && old(self).ids().len() > 0 && !old(self).is_fair ==>
            final(self).heap()[old(self).ids().last()].state is Notified && r == old(self).heap()[old(self).ids().last()].task
            && final(self).ids() == old(self).ids().drop_last(),
        !(old(wait_node).data().state is Notified) ==> r is None,
        // [C03] inductive step: dropping a floating notified future hands its wake-up to the oldest queued one
        forall|f: int| f >= (if old(self).floating(old(wait_node)) { 1int } else { 0 }) && old(self).inv_wake(old(self).heap(), f)
            ==> final(self).inv_wake(final(self).heap(), f - (if old(self).floating(old(wait_node)) { 1int } else { 0 })
                 + (if old(self).floating(old(wait_node)) && old(self).ids().len() > 0 { 1int } else { 0 })),
    {
        // MutexLockFuture only needs to get removed if it had been added to
        // the wait queue of the Mutex. This has happened in the PollState::Waiting case.
        // If the current waiter was notified, another waiter must get notified now.
        match wait_node.state {
            PollState::Notified => {
                if self.is_fair {
                    // In a fair Mutex, the WaitQueueEntry is kept in the
                    // linked list and must be removed here
                    // Safety: Due to the state, we know that the node must be part
                    // of the waiter list
                    unsafe { self.force_remove_waiter(wait_node) };
                }
                wait_node.state = PollState::Done;
                // Since the task was notified but did not lock the Mutex,
                // another task gets the chance to run.
                self.return_last_waiter()
            }
            PollState::Waiting => {
                // Remove the WaitQueueEntry from the linked list
                // Safety: Due to the state, we know that the node must be part
                // of the waiter list
                unsafe { self.force_remove_waiter(wait_node) };
                wait_node.state = PollState::Done;
                None
            }
            PollState::New | PollState::Done => None,
        }
    }
}
} // verus!
fn main() {}
