use syn::visit::Visit;
use syn::spanned::Spanned;
struct V { depth: usize }
impl<'ast> Visit<'ast> for V {
    fn visit_impl_item_fn(&mut self, f: &'ast syn::ImplItemFn) {
        let s = f.sig.span(); let b = f.block.span();
        println!("fn {} sig {}:{}-{}:{} body {}:{}-{}:{}", f.sig.ident, s.start().line, s.start().column, s.end().line, s.end().column, b.start().line, b.start().column, b.end().line, b.end().column);
        syn::visit::visit_impl_item_fn(self, f);
    }
    fn visit_expr_loop(&mut self, l: &'ast syn::ExprLoop) { println!("  loop at {}", l.span().start().line); syn::visit::visit_expr_loop(self, l); }
    fn visit_expr_while(&mut self, l: &'ast syn::ExprWhile) { println!("  while at {} body {}", l.span().start().line, l.body.span().start().line); syn::visit::visit_expr_while(self, l); }
    fn visit_expr_closure(&mut self, c: &'ast syn::ExprClosure) { println!("  closure at {}:{} body {}:{}", c.span().start().line, c.span().start().column, c.body.span().start().line, c.body.span().start().column); syn::visit::visit_expr_closure(self, c); }
}
fn main() {
    let p = std::env::args().nth(1).unwrap();
    let src = std::fs::read_to_string(&p).unwrap();
    let f = syn::parse_file(&src).unwrap();
    V{depth:0}.visit_file(&f);
}
