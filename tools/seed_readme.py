#!/usr/bin/env python3
"""seed_readme.py -- regenerates the tables of /verif/seeded/README.md from seeded/*/meta.json and seeded/refactors/*.json"""
import glob, json, os, re
V = os.path.dirname(os.path.dirname(os.path.abspath(__file__)))
p = os.path.join(V, "seeded", "README.md")
s = open(p).read()
head = s[:s.index("| id | target |")]
rows = ["| id | target | target check exit | other checks run (exit) | first reported obligation | history |", "|---|---|---|---|---|---|"]
det = tot = 0
for mj in sorted(glob.glob(os.path.join(V, "seeded", "C*", "meta.json"))):
    m = json.load(open(mj))
    t = m["breaks"]
    cr = m["check_results"]
    tot += 1
    anyone = [k for k, v in cr.items() if v["rc"] == 1]
    det += 1 if anyone else 0
    first = ""
    for k in [t] + [k for k in cr if k != t]:
        rep = [l for l in cr[k]["report"] if "failed obligation" in l]
        if cr[k]["rc"] == 1 and rep:
            first = rep[0].replace("failed obligation:", "").strip()[:150]
            break
    hist = ""
    if m.get("previous_runs"):
        pr = m["previous_runs"][-1]
        hist = "first run: " + ", ".join("%s: %d" % (k, v["rc"]) for k, v in pr["check_results"].items()) + ((" -- " + pr["strengthened_after"]) if pr.get("strengthened_after") else "")
    rows.append("| %s | %s | %d | %s | `%s` | %s |" % (m["id"], t, cr[t]["rc"], ", ".join("%s: %d" % (k, v["rc"]) for k, v in cr.items() if k != t) or "-", first, hist))
ref = ["| id | checks (exit) |", "|---|---|"]
fa = 0
for rj in sorted(glob.glob(os.path.join(V, "seeded", "refactors", "*.json"))):
    m = json.load(open(rj))
    fa += 1 if m["false_alarm"] else 0
    ref.append("| %s | %s |" % (m["id"], ", ".join("%s: %d" % (k, v["rc"]) for k, v in m["checks"].items())))
mid_a = s.index("## Behaviour-preserving refactorings")
mid_b = s.index("| id | checks (exit) |")
out = head + "\n".join(rows) + "\n\n(%d changes; %d reported (exit 1) by at least one of the checks run, %d by the check of the property the author named.)\n\n" % (
    tot, det, sum(1 for mj in glob.glob(os.path.join(V, "seeded", "C*", "meta.json")) if (lambda m: m["check_results"][m["breaks"]]["rc"] == 1)(json.load(open(mj))))) \
    + s[mid_a:mid_b] + "\n".join(ref) + "\n\n(%d refactorings, %d false alarms.)\n" % (len(ref) - 2, fa)
open(p, "w").write(out)
print(tot, det, len(ref) - 2, fa)
