#!/usr/bin/env python3
"""
vxlib -- assembler / runner for the Verus side of the framework (DESIGN.md sections 3.5, 3.6, 4).

A *unit template* (contracts/<unit>.vrs) is Verus text with `//@` directives.  On every run the real
source under /repo is parsed by tools/extract (syn) and the directives are replaced by text copied
byte-for-byte from /repo by span:

  //@ INCLUDE <template file relative to contracts/>
  //@ ITEM <file> <key> [keep=PartialEq,...]          struct / enum, verbatim (doc comments + attributes
                                                       dropped; derives in `keep` retained)
  //@ IMPLHEAD <file> <key>[#k]                        `impl<..> Type<..> where .. {` header, verbatim
  //@ TRAITHEAD <file> <key>                           `pub trait X {` header, verbatim
  //@ COVER <file> <key> skip=a,b,c                    every fn of impl/trait <key> in <file> must have an FN
                                                       directive in this unit or be listed in skip=
  //@ FN <file> <key> [ret=<name>] [body=C01,C02] [nobody] [proto]
        <spec clauses, plain Verus: requires ... ensures ...>
        // [C02 C03] group header: tags for the clauses that follow
  //@ LOOP <k> [tags=C06]
        <invariant ... decreases ...>                  inserted between header and `{` of loop #k
  //@ CLOSURE <k> |<typed params>| [tags=..]
        <ensures ...>                                  closure #k gets typed params + these clauses
  //@ HINT <anchor text>@@<proof text>                 (avoided; loss of anchor = exit 2)
  //@ ENDFN

The signature is copied from /repo; only the return type `-> T` is rewritten to `-> (<name>: T)`.
"""
import hashlib
import json
import os
import re
import subprocess
import sys
import time

VERIF = os.path.dirname(os.path.dirname(os.path.abspath(__file__)))
REPO = os.environ.get("VERIF_REPO", "/repo")
EXTRACT_BIN = os.path.join(VERIF, "tools/extract/target/release/vx-extract")
CONTRACTS = os.path.join(VERIF, "contracts")
WORK = os.path.join(VERIF, ".work")


class Infra(Exception):
    """Infrastructure problem (lost anchor, unsupported construct, tool failure): exit 2, never an alarm."""


# ------------------------------------------------------------------------------------------------
# extraction
# ------------------------------------------------------------------------------------------------
_extract_cache = {}


def extract(files):
    """files: list of repo-relative paths. returns {relpath: {'src': bytes, 'items': [...]}}"""
    need = [f for f in files if f not in _extract_cache]
    if need:
        if not os.path.exists(EXTRACT_BIN):
            raise Infra("extractor not built (run setup): %s" % EXTRACT_BIN)
        paths = [os.path.join(REPO, f) for f in need]
        p = subprocess.run([EXTRACT_BIN] + paths, capture_output=True, text=True)
        if p.returncode != 0:
            raise Infra("extractor failed: " + p.stderr.strip())
        d = json.loads(p.stdout)
        for f, pa in zip(need, paths):
            src = open(pa, "rb").read()
            _extract_cache[f] = {"src": src, "items": d[pa]["items"]}
    return {f: _extract_cache[f] for f in files}


def find_item(ex, relfile, key, kinds):
    idx = 0
    m = re.match(r"^(.*)#(\d+)$", key)
    if m:
        key, idx = m.group(1), int(m.group(2))
    c = [it for it in ex[relfile]["items"] if it["key"] == key and it["kind"] in kinds]
    if len(c) <= idx:
        raise Infra("lost anchor: %s %s (%s) not found in %s" % ("/".join(kinds), key, idx, relfile))
    if not m and len(c) > 1 and "impl" not in kinds:
        raise Infra("ambiguous anchor: %s appears %d times in %s" % (key, len(c), relfile))
    return c[idx]


# ------------------------------------------------------------------------------------------------
# clause splitting
# ------------------------------------------------------------------------------------------------
SECTION_KW = ("requires", "ensures", "invariant", "invariant_except_break", "decreases", "returns", "recommends", "no_unwind")


def split_spec(text):
    """Split a spec text into [(section, clause_text, start, end, tags)] (offsets into text).
    Top-level commas separate clauses; `// [Cxx ..]` comment lines set the tags of following clauses."""
    out = []
    i, n = 0, len(text)
    depth = 0
    section = None
    tags = []
    cstart = None

    def flush(end):
        nonlocal cstart
        if cstart is not None:
            t = text[cstart:end].strip()
            if t:
                # trim leading whitespace in offsets
                s = cstart
                while s < end and text[s].isspace():
                    s += 1
                e = end
                while e > s and text[e - 1].isspace():
                    e -= 1
                out.append((section, text[s:e], s, e, list(tags)))
        cstart = None

    while i < n:
        ch = text[i]
        if text.startswith("//", i):
            j = text.find("\n", i)
            if j < 0:
                j = n
            line = text[i:j]
            m = re.match(r"//\s*\[([A-Za-z0-9 ,]+)\]", line)
            if m and depth == 0 and (cstart is None or not text[cstart:i].strip()):
                tags = re.split(r"[ ,]+", m.group(1).strip())
                cstart = None
            elif cstart is not None and not text[cstart:i].strip():
                cstart = None
            i = j
            continue
        if text.startswith("/*", i):
            j = text.find("*/", i)
            i = n if j < 0 else j + 2
            continue
        if ch == '"':
            j = i + 1
            while j < n and text[j] != '"':
                j += 2 if text[j] == "\\" else 1
            if cstart is None:
                cstart = i
            i = j + 1
            continue
        if depth == 0 and (ch.isalpha() or ch == "_"):
            m = re.match(r"[A-Za-z_][A-Za-z0-9_]*", text[i:])
            w = m.group(0)
            if w in SECTION_KW and (cstart is None or not text[cstart:i].strip()):
                flush(i)
                section = w
                i += len(w)
                cstart = None
                continue
            if w in ("forall", "exists", "choose"):
                # skip binder |...|
                if cstart is None:
                    cstart = i
                j = i + len(w)
                while j < n and text[j].isspace():
                    j += 1
                if j < n and text[j] == "|":
                    k = text.find("|", j + 1)
                    i = k + 1
                    continue
            if cstart is None:
                cstart = i
            i += len(w)
            continue
        if ch in "([{":
            if cstart is None:
                cstart = i
            depth += 1
        elif ch in ")]}":
            depth -= 1
        elif ch == "," and depth == 0:
            flush(i)
            i += 1
            continue
        elif not ch.isspace() and cstart is None:
            cstart = i
        i += 1
    flush(n)
    return out


# ------------------------------------------------------------------------------------------------
# assembling
# ------------------------------------------------------------------------------------------------
class Assembled:
    def __init__(self):
        self.chunks = []  # list of str
        self.pos = 0
        self.regions = []  # (start, end, info) over output offsets
        self.clauses = []  # dict(name, unit, fn, section, idx, tags, start, end, text)
        self.functions = []  # dict(unit, key, file, lines, sha256, body_tags, ...)
        self.trusted = []
        self.rewrites = []
        self.unit = None
        self.props = set()

    def emit(self, s, info=None):
        if info is not None and s:
            self.regions.append((self.pos, self.pos + len(s), info))
        self.chunks.append(s)
        self.pos += len(s)

    def text(self):
        return "".join(self.chunks)

    def region_at(self, off):
        best = None
        for (a, b, info) in self.regions:
            if a <= off < b:
                if best is None or (b - a) < (best[1] - best[0]):
                    best = (a, b, info)
        return best[2] if best else None


def _kv(tokens):
    kv = {}
    flags = set()
    for t in tokens:
        if "=" in t:
            k, v = t.split("=", 1)
            kv[k] = v
        else:
            flags.add(t)
    return kv, flags


def _inject_body(asm, ex, relfile, fnitem, loops, closures, hints, fninfo, rewrites=()):
    """Emit the function body with loop/closure injections; body text is verbatim otherwise."""
    src = ex[relfile]["src"]
    b0, b1 = fnitem["body"][0], fnitem["body"][1]
    # collect insertions as (offset, order, kind, payload)
    edits = []  # (offset, remove_len, text, info)
    for k, (spec, tags) in loops.items():
        if k >= len(fnitem["loops"]):
            raise Infra("lost anchor: loop #%d of %s in %s" % (k, fnitem["key"], relfile))
        lp = fnitem["loops"][k]
        off = lp["body"][0]  # position of `{`
        edits.append((off, 0, "\n" + spec.rstrip() + "\n", {"kind": "loopspec", "fn": fninfo, "loop": k, "tags": tags}))
    for k in range(len(fnitem["loops"])):
        if k not in loops:
            raise Infra("loop #%d of %s in %s has no LOOP directive (loop count changed?)" % (k, fnitem["key"], relfile))
    for k, (params, spec, tags) in closures.items():
        if k >= len(fnitem["closures"]):
            raise Infra("lost anchor: closure #%d of %s in %s" % (k, fnitem["key"], relfile))
        cl = fnitem["closures"][k]
        o1, o2 = cl["or1"][0], cl["or2"][1]
        edits.append((o1, o2 - o1, params + " ", {"kind": "closureparams", "fn": fninfo, "closure": k}))
        bs, be = cl["body"][0], cl["body"][1]
        sp = "\n" + spec.rstrip() + "\n" if spec.strip() else ""
        if cl["is_block"]:
            edits.append((bs, 0, sp, {"kind": "closurespec", "fn": fninfo, "closure": k, "tags": tags}))
        else:
            edits.append((bs, 0, sp + "{ ", {"kind": "closurespec", "fn": fninfo, "closure": k, "tags": tags}))
            edits.append((be, 0, " }", {"kind": "closurebrace", "fn": fninfo, "closure": k}))
    # closures that a REWRITE directive replaces as a whole (text of the closure inside the rewritten expression) are gone
    # from the verified text and need no annotation
    n_live = sum(1 for cl in fnitem["closures"]
                 if not any(src[cl["or1"][0]:cl["body"][1]].decode() in frm for (frm, _to) in rewrites))
    if n_live != len(closures):
        # a closure without a contract is opaque to the verifier: whatever depends on its result would be "refuted" for lack
        # of information, not because the code is wrong -- undecided (exit 2), never an alarm; Kani still decides
        raise Infra("closure count of %s in %s changed (%d in source, %d annotated): an unannotated closure is opaque to the verifier" % (fnitem["key"], relfile, n_live, len(closures)))
    body_text = src[b0:b1].decode()
    for (anchor, proof) in hints:
        cnt = body_text.count(anchor)
        if cnt != 1:
            raise Infra("lost anchor: hint anchor %r occurs %d times in %s" % (anchor, cnt, fnitem["key"]))
        off = b0 + len(body_text[: body_text.index(anchor)].encode())
        edits.append((off, 0, proof + " ", {"kind": "hint", "fn": fninfo}))
    for (frm, to) in rewrites:
        # documented token substitution (DESIGN 3.5): every occurrence, at least one
        idx = [m.start() for m in re.finditer(re.escape(frm), body_text)]
        if not idx:
            raise Infra("lost anchor: rewrite source %r does not occur in %s" % (frm, fnitem["key"]))
        for ix in idx:
            off = b0 + len(body_text[:ix].encode())
            edits.append((off, len(frm.encode()), to, {"kind": "rewrite", "fn": fninfo, "from": frm, "to": to}))
        asm.rewrites.append({"fn": fnitem["key"], "file": relfile, "from": frm, "to": to, "occurrences": len(idx)})
    edits.sort(key=lambda e: (e[0], e[1]))
    cur = b0
    for (off, rem, text, info) in edits:
        if off < cur:
            raise Infra("overlapping injections in %s" % fnitem["key"])
        _emit_src(asm, src, cur, off, relfile, fninfo)
        asm.emit(text, info)
        cur = off + rem
    _emit_src(asm, src, cur, b1, relfile, fninfo)


def _emit_src(asm, src, a, b, relfile, fninfo):
    if b > a:
        line = src[:a].count(b"\n") + 1
        asm.emit(src[a:b].decode(), {"kind": "repo", "file": relfile, "line0": line, "off0": a, "fn": fninfo})


def _strip_item_text(src, item):
    """struct/enum text from after its outer attributes to its end, doc comments on fields removed."""
    a, b = item["start"], item["span"][1]
    t = src[a:b].decode()
    # drop doc comment lines and field/variant attributes (ghost-irrelevant)
    lines = [l for l in t.split("\n") if not l.strip().startswith("///") and not l.strip().startswith("#[")]
    return "\n".join(lines).lstrip()


def assemble(unit_file, canary=False, mutate_spec=None):
    """Returns Assembled. unit_file: path relative to contracts/."""
    asm = Assembled()
    lines_stack = []

    def load(path):
        p = os.path.join(CONTRACTS, path)
        if not os.path.exists(p):
            raise Infra("template not found: " + p)
        return [(path, i + 1, l) for i, l in enumerate(open(p).read().split("\n"))]

    lines = load(unit_file)
    # expand includes first, collect files
    expanded = []
    files = set()

    def expand(ls, depth=0):
        for (path, ln, l) in ls:
            s = l.strip()
            if s.startswith("//@ INCLUDE"):
                inc = s.split()[2]
                expand(load(inc), depth + 1)
            else:
                expanded.append((path, ln, l))
                if s.startswith("//@ "):
                    tk = s.split()
                    if tk[1] in ("ITEM", "IMPLHEAD", "IMPLTYPES", "TRAITHEAD", "TRAITTYPES", "FN", "COVER"):
                        files.add(tk[2])

    expand(lines)
    ex = extract(sorted(files))
    covered = {}  # (file, implkey) -> set(fn names)
    cover_reqs = []
    i = 0
    n = len(expanded)
    while i < n:
        path, ln, l = expanded[i]
        s = l.strip()
        if not s.startswith("//@ "):
            asm.emit(l + "\n", {"kind": "tmpl", "file": path, "line": ln})
            i += 1
            continue
        tk = s.split()
        d = tk[1]
        if d == "UNIT":
            asm.unit = tk[2]
            kv, _ = _kv(tk[3:])
            asm.props = set(kv.get("props", "").split(",")) - {""}
            i += 1
        elif d == "ITEM":
            relfile, key = tk[2], tk[3]
            kv, _ = _kv(tk[4:])
            it = find_item(ex, relfile, key, ("struct", "enum"))
            keep = set(kv.get("keep", "").split(",")) - {""}
            derives = []
            for a in it["attrs"]:
                m = re.match(r"#\s*\[\s*derive\s*\((.*)\)\s*\]", a["text"])
                if m:
                    for dname in [x.strip() for x in m.group(1).split(",")]:
                        if dname in keep:
                            derives.append(dname)
            txt = _strip_item_text(ex[relfile]["src"], it)
            if "PartialEq" in derives and it["kind"] == "enum" and not re.search(r"[({]", txt[txt.index("{") + 1:]):
                # ledger A7: the derived `==` of a FIELD-LESS enum compares variants.  Verus gives a derived PartialEq a meaning
                # only together with `Eq, Structural`; inserted (ghost only) so that `a == B::X` in a body means `a is X`.
                derives += [x for x in ("Eq", "Structural") if x not in derives]
                asm.rewrites.append({"fn": key, "file": relfile, "from": "#[derive(PartialEq)] on a field-less enum", "to": "added derives Eq, Structural (A7)", "occurrences": 1})
            if derives:
                asm.emit("#[derive(%s)]\n" % ", ".join(derives), {"kind": "gen"})
            asm.emit(txt + "\n", {"kind": "repo-item", "file": relfile, "line0": it["span"][2], "key": key})
            asm.functions.append({"unit": asm.unit, "key": key, "kind": it["kind"], "file": relfile,
                                  "lines": [it["span"][2], it["span"][3]],
                                  "sha256": hashlib.sha256(txt.encode()).hexdigest()[:16]})
            i += 1
        elif d in ("IMPLHEAD", "TRAITHEAD"):
            relfile, key = tk[2], tk[3]
            kind = "impl" if d == "IMPLHEAD" else "trait"
            it = find_item(ex, relfile, key, (kind,))
            src = ex[relfile]["src"]
            end = it["header_end"] if kind == "impl" else it["brace_open"] - 1
            head = src[it["start"]:end].decode().lstrip()
            kvh, _ = _kv(tk[4:])
            if kvh.get("super"):
                # documented ghost insertion (DESIGN 3.5): a supertrait bound Verus needs for `-> Self` declarations
                head = head.rstrip() + ": " + kvh["super"] + " "
                asm.rewrites.append({"fn": key, "file": relfile, "from": "trait header", "to": "added supertrait bound " + kvh["super"], "occurrences": 1})
            asm.emit(head + "{\n", {"kind": "repo-item", "file": relfile, "line0": it["span"][2], "key": key})
            i += 1
        elif d == "TRAITTYPES":
            relfile, key = tk[2], tk[3]
            src = ex[relfile]["src"]
            for it in ex[relfile]["items"]:
                if it["kind"] == "trait_type" and it["key"].startswith(key + "::"):
                    asm.emit("    " + src[it["start"]:it["span"][1]].decode().strip() + "\n", {"kind": "repo-item", "file": relfile, "line0": it["span"][2], "key": it["key"]})
            i += 1
        elif d == "IMPLTYPES":
            relfile, key = tk[2], tk[3]
            src = ex[relfile]["src"]
            for it in ex[relfile]["items"]:
                if it["kind"] == "impl_type" and it["key"].startswith(key + "::"):
                    asm.emit("    " + src[it["span"][0]:it["span"][1]].decode().strip() + "\n", {"kind": "repo-item", "file": relfile, "line0": it["span"][2], "key": it["key"]})
            i += 1
        elif d == "COVER":
            relfile, key = tk[2], tk[3]
            kv, _ = _kv(tk[4:])
            cover_reqs.append((relfile, key, set(kv.get("skip", "").split(",")) - {""}, path, ln))
            i += 1
        elif d == "FN":
            relfile, key = tk[2], tk[3]
            kv, flags = _kv(tk[4:])
            retname = kv.get("ret", "r")
            body_tags = [t for t in kv.get("body", "").split(",") if t]
            it = find_item(ex, relfile, key, ("fn",))
            src = ex[relfile]["src"]
            # gather spec / loop / closure blocks
            i += 1
            spec_lines = []
            loops = {}
            closures = {}
            hints = []
            rewrites = []
            cur = ("spec", None)
            buf = spec_lines
            while True:
                if i >= n:
                    raise Infra("%s:%d: FN without ENDFN" % (path, ln))
                p2, ln2, l2 = expanded[i]
                s2 = l2.strip()
                if s2.startswith("//@ ENDFN"):
                    i += 1
                    break
                if s2.startswith("//@ LOOP"):
                    t2 = s2.split()
                    k = int(t2[2])
                    kv2, _ = _kv(t2[3:])
                    buf = []
                    loops[k] = [buf, [t for t in kv2.get("tags", "").split(",") if t] or body_tags]
                elif s2.startswith("//@ CLOSURE"):
                    m = re.match(r"//@ CLOSURE\s+(\d+)\s+(\|.*?)\s*(tags=\S+)?\s*$", s2)
                    if not m:
                        raise Infra("%s:%d: bad CLOSURE directive" % (p2, ln2))
                    buf = []
                    tg = m.group(3).split("=")[1].split(",") if m.group(3) else body_tags
                    closures[int(m.group(1))] = [m.group(2), buf, tg]
                elif s2.startswith("//@ REWRITE"):
                    a, pr = s2[len("//@ REWRITE"):].split("@@", 1)
                    rewrites.append((a.strip(), pr.strip()))
                elif s2.startswith("//@ HINT"):
                    a, pr = s2[len("//@ HINT"):].split("@@", 1)
                    hints.append((a.strip(), pr.strip()))
                else:
                    buf.append(l2)
                i += 1
            spec = "\n".join(spec_lines)
            passes = [False]
            if canary and "nobody" not in flags and "external" not in flags and it["body"] is not None and ("@" not in key or "inherent" in flags):
                # (methods of trait impls cannot be copied under another name: exempt; their preconditions are the trait's)
                passes = [False, True]  # the canary is a renamed COPY so that no caller ever assumes its `ensures false`
            for is_copy in passes:
                fninfo = {"unit": asm.unit, "key": key, "file": relfile, "body_tags": body_tags}
                # signature
                sig_start = it["start"]
                sig_text = src[sig_start:it["paren_end"]].decode().lstrip()
                assoc = None
                if "selfassoc" in flags:
                    # resolve `Self::Output` / `Self::Item` with the impl block's own `type X = Y;` (documented mechanical substitution)
                    implkey_ = key.rsplit("::", 1)[0]
                    assoc = {}
                    for it2 in ex[relfile]["items"]:
                        if it2["kind"] == "impl_type" and it2["key"].startswith(implkey_ + "::"):
                            t_ = src[it2["span"][0]:it2["span"][1]].decode()
                            assoc["Self::" + it2["key"].rsplit("::", 1)[1]] = t_.split("=", 1)[1].strip().rstrip(";").strip()
                    if not assoc:
                        raise Infra("lost anchor: no associated type in impl %s" % implkey_)
                    for k_, v_ in assoc.items():
                        sig_text = sig_text.replace(k_, v_)
                if "external" in flags:
                    asm.emit("    #[verifier::external_body]\n", {"kind": "gen"})
                if is_copy:
                    sig_text = re.sub(r"\bfn\s+" + re.escape(it["name"]) + r"\b", "fn " + it["name"] + "__canary", sig_text, count=1)
                asm.emit("    " + sig_text, {"kind": "repo-sig", "file": relfile, "line0": it["span"][2], "fn": fninfo})
                if it["ret"] is not None:
                    ty = src[it["ret"]["ty"][0]:it["ret"]["ty"][1]].decode()
                    for k_, v_ in (assoc or {}).items():
                        ty = ty.replace(k_, v_)
                    if retname == "-":
                        asm.emit(" -> %s" % ty, {"kind": "gen"})
                    else:
                        asm.emit(" -> (%s: %s)" % (retname, ty), {"kind": "gen"})
                if it["where"] is not None:
                    asm.emit("\n    " + src[it["where"][0]:it["where"][1]].decode(), {"kind": "repo-sig", "file": relfile, "line0": it["span"][2], "fn": fninfo})
                asm.emit("\n", None)
                # spec
                if mutate_spec:
                    spec = mutate_spec(key, spec)
                spec_core = spec.rstrip()
                if is_copy:
                    has_ens = any(c[0] == "ensures" for c in split_spec(spec_core))
                    sc = spec_core.rstrip()
                    if has_ens:
                        if not sc.endswith(","):
                            sc += ","
                        sc += "\n        false /*canary*/,"
                    else:
                        sc += "\n      ensures false /*canary*/,"
                    spec_core = sc
                base = asm.pos
                asm.emit(spec_core + "\n", {"kind": "spec", "fn": fninfo})
                for ci, (section, ctext, cs, ce, tags) in enumerate(split_spec(spec_core)):
                    if section in ("requires", "ensures") and (not is_copy or "/*canary*/" in ctext):
                        nm = "%s::%s::%s#%d" % (asm.unit, key, section, sum(1 for c in asm.clauses if c["fn"] == key and c["section"] == section and c["unit"] == asm.unit))
                        asm.clauses.append({"name": nm, "unit": asm.unit, "fn": key, "file": relfile, "section": section, "tags": tags,
                                            "start": base + cs, "end": base + ce, "text": ctext, "canary": "/*canary*/" in ctext})
                # body
                if "external" in flags:
                    asm.emit("    { unimplemented!() }\n", {"kind": "gen"})
                    if not is_copy:
                        asm.functions.append({"unit": asm.unit, "key": key, "kind": "external-fn", "file": relfile, "lines": [it["span"][2], it["span"][3]],
                                              "sha256": hashlib.sha256(src[sig_start:it["paren_end"]]).hexdigest()[:16]})
                elif "nobody" in flags or it["body"] is None:
                    asm.emit(";\n", None)
                else:
                    lp = {}
                    for k, (b, tg) in loops.items():
                        lspec = "\n".join(b)
                        lp[k] = (lspec, tg)
                    clp = {k: (p, "\n".join(b), tg) for k, (p, b, tg) in closures.items()}
                    body_start = asm.pos
                    _inject_body(asm, ex, relfile, it, lp, clp, hints, fninfo, rewrites)
                    # register loop invariant clauses
                    for (a, b, info) in asm.regions:
                        if not is_copy and a >= body_start and info.get("kind") in ("loopspec", "closurespec") and info["fn"] is fninfo:
                            rtxt = asm.text()[a:b]
                            for (section, ctext, cs, ce, tags) in split_spec(rtxt):
                                if section in ("invariant", "invariant_except_break", "ensures", "requires"):
                                    which = "loop%d" % info["loop"] if "loop" in info else "closure%d" % info["closure"]
                                    nm = "%s::%s::%s.%s#%d" % (asm.unit, key, which, section, sum(1 for c in asm.clauses if c["fn"] == key and c["section"] == which + "." + section))
                                    asm.clauses.append({"name": nm, "unit": asm.unit, "fn": key, "file": relfile, "section": which + "." + section,
                                                        "tags": tags or info.get("tags") or body_tags, "start": a + cs, "end": a + ce, "text": ctext, "canary": False})
                    asm.emit("\n", None)
                    body_bytes = src[it["body"][0]:it["body"][1]]
                    sites = [m["path"] for m in it["macros"] if m["path"] in ("panic", "unreachable", "assert", "debug_assert", "unimplemented", "assert_eq", "debug_assert_eq")]
                    nsites = len(sites) + len(re.findall(rb"\.(expect|unwrap)\(", body_bytes))
                    if not is_copy:
                      asm.functions.append({"unit": asm.unit, "key": key, "kind": "fn", "file": relfile,
                                          "lines": [it["span"][2], it["span"][3]],
                                          "sha256": hashlib.sha256(src[sig_start:it["span"][1]]).hexdigest()[:16],
                                          "body_tags": body_tags, "panic_sites": nsites, "loops": len(it["loops"]), "closures": len(it["closures"]),
                                          "is_unsafe": it["is_unsafe"], "inherent": "inherent" in flags})
            implkey = key.rsplit("::", 1)[0] if "::" in key else ""
            covered.setdefault((relfile, implkey), set()).add(it["name"])
        else:
            raise Infra("%s:%d: unknown directive %s" % (path, ln, d))
    for (relfile, key, skip, path, ln) in cover_reqs:
        have = covered.get((relfile, key), set())
        for it in ex[relfile]["items"]:
            if it["kind"] == "fn" and it["key"].rsplit("::", 1)[0] == key and "::" in it["key"]:
                if it["name"] not in have and it["name"] not in skip:
                    raise Infra("lost anchor: function %s in %s is neither under contract nor listed in skip= (%s:%d)" % (it["key"], relfile, path, ln))
        for nm in skip:
            if not any(it["kind"] == "fn" and it["key"] == key + "::" + nm for it in ex[relfile]["items"]):
                raise Infra("lost anchor: skipped function %s::%s no longer exists in %s" % (key, nm, relfile))
    return asm


TRUST_PAT = re.compile(r"external_body|assume_specification|external_type_specification|\buninterp\b|\bassume\s*\(|\badmit\s*\(|external_trait_specification|#\[verifier::external\]|broadcast\s+axiom|\baxiom\b")


def scan_trusted(text):
    out = {}
    for m in TRUST_PAT.finditer(text):
        k = re.sub(r"\s+", "", m.group(0)).rstrip("(")
        out[k] = out.get(k, 0) + 1
    return out


# ------------------------------------------------------------------------------------------------
# running verus
# ------------------------------------------------------------------------------------------------
VERUS_ARGS = ["--output-json", "--time", "--multiple-errors", "40"]


def run_verus(path, extra=None, timeout=900, threads=None):
    cmd = ["verus", path] + VERUS_ARGS + (extra or [])
    if threads:
        cmd += ["--num-threads", str(threads)]
    cmd += ["--", "--error-format=json"]
    t0 = time.time()
    try:
        p = subprocess.run(cmd, capture_output=True, text=True, timeout=timeout, cwd=os.path.dirname(path))
    except subprocess.TimeoutExpired:
        raise Infra("verus timed out after %ds on %s" % (timeout, path))
    wall = time.time() - t0
    try:
        js = json.loads(p.stdout)
    except Exception:
        js = None
    diags = []
    for l in p.stderr.split("\n"):
        l = l.strip()
        if l.startswith("{"):
            try:
                dj = json.loads(l)
                if dj.get("$message_type") == "diagnostic":
                    diags.append(dj)
            except Exception:
                pass
    return {"cmd": " ".join(cmd), "rc": p.returncode, "json": js, "diags": diags, "stderr": p.stderr, "wall_s": wall}


VIOLATION_MSGS = [
    ("postcondition not satisfied", "ensures"),
    ("unable to prove post-condition of closure", "ensures"),
    ("unable to prove precondition of closure", "requires@callsite"),
    ("unable to prove assertion", "assert"),
    ("Call to non-static function fails to satisfy", "requires@callsite"),
    ("precondition not satisfied", "requires@callsite"),
    ("invariant not satisfied", "invariant"),
    ("possible arithmetic underflow/overflow", "overflow"),
    ("possible division by zero", "overflow"),
    ("assertion failed", "assert"),
    ("unreachable", "panic-free"),
    ("index out of bounds", "bounds"),
    ("possible bit shift", "overflow"),
]
INFRA_MSG_PAT = re.compile(r"rlimit|Resource limit|not supported|unsupported|decreases|termination|cannot find|mismatched types|expected|unresolved|borrow|lifetime|trait bound|no method|syntax|panicked", re.I)


def classify(asm, res):
    """returns (failed: list of dict(name, tags, kind, msg, rendered, fn), infra: list of str)"""
    failed = []
    infra = []
    text = asm.text()
    errs = [d for d in res["diags"] if d.get("level") == "error"]
    def _local_spans(spans, fname):
        """spans that lie in the assembled file; spans inside macro expansions (panic!, assert!, ...) are replaced by the
        span of the macro invocation in our file"""
        out = []
        for s_ in spans:
            cur = s_
            hops = 0
            while cur is not None and os.path.basename(cur.get("file_name", "")) != fname and hops < 8:
                exp = cur.get("expansion")
                cur = exp.get("span") if exp else None
                hops += 1
            if cur is not None:
                c2 = dict(cur)
                c2["label"] = s_.get("label")
                c2["is_primary"] = s_.get("is_primary")
                out.append(c2)
        return out
    fname = os.path.basename(res["cmd"].split()[1]) if res.get("cmd") else ""
    for d in errs:
        d["spans"] = _local_spans(d.get("spans", []), fname) or d.get("spans", [])
        msg = d.get("message", "")
        if msg.startswith("aborting due to") or msg.startswith("could not compile"):
            continue
        kind = None
        for (m, k) in VIOLATION_MSGS:
            if m in msg:
                kind = k
                break
        if kind is None:
            infra.append("verus error (not a refutation): " + msg + " :: " + (d.get("rendered") or "")[:600])
            continue
        spans = d.get("spans", [])
        prim = [s for s in spans if s.get("is_primary")] or spans
        entry = {"kind": kind, "msg": msg, "rendered": d.get("rendered", ""), "name": None, "tags": [], "fn": None, "canary": False}
        located = False
        if kind in ("ensures", "invariant"):
            # span that points to the clause
            cand = [s for s in spans if "failed this" in (s.get("label") or "") or s.get("is_primary")]
            for s in cand:
                for c in asm.clauses:
                    if c["start"] <= s["byte_start"] < c["end"] or (s["byte_start"] <= c["start"] and c["end"] <= s["byte_end"]):
                        entry.update(name=c["name"], tags=c["tags"], fn=c["fn"], canary=c.get("canary", False), clause=c["text"][:400])
                        located = True
                        break
                if located:
                    break
            # exit location in the repo
            for s in spans:
                if "at this exit" in (s.get("label") or "") or "at the end of the function body" in (s.get("label") or ""):
                    r = asm.region_at(s["byte_start"])
                    if r and r.get("kind") == "repo":
                        pre = text[[a for (a, b, i2) in asm.regions if i2 is r][0]:s["byte_start"]]
                        entry["exit"] = "%s:%d" % (r["file"], r["line0"] + pre.count("\n"))
        if not located:
            # body obligation: locate enclosing function through the primary span
            for s in prim + spans:
                r = asm.region_at(s["byte_start"])
                if r and r.get("fn"):
                    fi = r["fn"]
                    where = ""
                    if r.get("kind") == "repo":
                        a0 = [a for (a, b, i2) in asm.regions if i2 is r][0]
                        where = "%s:%d" % (r["file"], r["line0"] + text[a0:s["byte_start"]].count("\n"))
                    tags = r.get("tags") or fi.get("body_tags", [])
                    entry.update(name="%s::%s::%s@%s" % (fi["unit"], fi["key"], kind, where or "?"), tags=tags, fn=fi["key"])
                    located = True
                    break
        if not located:
            infra.append("could not attribute verus error to an obligation: " + msg + " :: " + (d.get("rendered") or "")[:600])
            continue
        failed.append(entry)
    js = res["json"]
    if js is None:
        infra.append("verus produced no JSON result; stderr: " + res["stderr"][-800:])
    else:
        vr = js.get("verification-results", {})
        if vr.get("encountered-vir-error"):
            infra.append("verus VIR error: " + res["stderr"][-1500:])
        if not vr.get("success") and not failed and not infra:
            infra.append("verus reported failure without attributable diagnostics: " + res["stderr"][-1500:])
    return failed, infra


def fn_times(res):
    out = {}
    try:
        for m in res["json"]["times-ms"]["smt"]["smt-run-module-times"]:
            for f in m.get("function-breakdown", []):
                out[f["function"]] = {"ms": f["time"], "rlimit": f["rlimit"], "success": f["success"]}
    except Exception:
        pass
    return out


def verify_unit(unit_file, workdir, want_canary=True):
    """Assemble + verify a unit; run the canary. Returns dict with everything needed for verdicts/evidence."""
    os.makedirs(workdir, exist_ok=True)
    asm = assemble(unit_file)
    name = asm.unit or os.path.splitext(os.path.basename(unit_file))[0]
    path = os.path.join(workdir, name + ".rs")
    open(path, "w").write(asm.text())
    res = run_verus(path)
    failed, infra = classify(asm, res)
    out = {"unit": name, "file": path, "asm": asm, "res": res, "failed": failed, "infra": infra, "canary": None}
    if want_canary and not infra:
        casm = assemble(unit_file, canary=True)
        cpath = os.path.join(workdir, name + "_canary.rs")
        open(cpath, "w").write(casm.text())
        cres = run_verus(cpath)
        cfailed, cinfra = classify(casm, cres)
        # a canary copy on which Z3 runs out of resources was NOT proved false: that is as good as a failed canary
        # (no vacuity shown); only a copy that VERIFIES `ensures false` is a vacuity alarm
        rl = [x for x in cinfra if "rlimit" in x or "Resource limit" in x]
        cinfra = [x for x in cinfra if x not in rl]
        rl_fns = set()
        for d in cres["diags"]:
            if d.get("level") == "error" and ("rlimit" in d.get("message", "") or "Resource limit" in d.get("message", "")):
                for sp in d.get("spans", []):
                    reg = casm.region_at(sp["byte_start"])
                    if reg and reg.get("fn"):
                        rl_fns.add(reg["fn"]["key"])
        fns_with_body = [f["key"] for f in casm.functions if f["kind"] == "fn" and ("@" not in f["key"] or f.get("inherent"))]
        hit = set(e["fn"] for e in cfailed if e.get("canary"))
        missing = [f for f in fns_with_body if f not in hit and f not in rl_fns and not (rl and not rl_fns)]
        out["canary"] = {"exempt_trait_impl_methods": [f["key"] for f in casm.functions if f["kind"] == "fn" and "@" in f["key"] and not f.get("inherent")], "functions": len(fns_with_body), "failed_as_expected": len(hit), "missing": missing, "infra": cinfra, "wall_s": cres["wall_s"]}
        if missing:
            out["infra"].append("canary `ensures false` verified for %s: precondition vacuous or function diverges" % missing)
        if cinfra:
            out["infra"].append("canary run infrastructure errors: %s" % cinfra[:2])
    return out
