#!/usr/bin/env python3
"""Scans /verif/kani/*.rs and writes kani/groups.json.
File header lines:  //! GROUP: <name>   //! MODULE: <rust path of the harness module>   //! TAGS: C01 C14 ...
                    //! N: quick=3 thorough=4     //! UNWIND_EXTRA: 3     //! KIND: <text>
Harnesses: `#[kani::proof]`/`#[kani::proof_for_contract(F)]` fn name, `inst!(name, ...)` (quick), `inst_t!(name, ...)` (thorough).
A `// TIER: thorough` comment line directly above an attribute marks a harness as thorough-only."""
import json, os, re, sys
V = os.path.dirname(os.path.dirname(os.path.abspath(__file__)))
groups = {}
for f in sorted(os.listdir(os.path.join(V, "kani"))):
    if not f.endswith(".rs"):
        continue
    s = open(os.path.join(V, "kani", f)).read()
    m = re.search(r"^//! GROUP: (\S+)", s, re.M)
    if not m:
        continue
    g = m.group(1)
    mod = re.search(r"^//! MODULE: (\S+)", s, re.M).group(1)
    tags = re.search(r"^//! TAGS: (.*)$", s, re.M).group(1).split()
    nm = re.search(r"^//! N: quick=(\d+) thorough=(\d+)", s, re.M)
    ue = re.search(r"^//! UNWIND_EXTRA: (\d+)", s, re.M)
    kind = re.search(r"^//! KIND: (.*)$", s, re.M)
    bounded = re.search(r"^//! BOUNDED: (.*)$", s, re.M)
    hs = []
    # per-function tag sets: the "[Cxx]" prefixes of the assertions in a check function's body (plus those of the
    # check_* functions it calls); C01 (pointer checks / panics) and C18 (armed allocator stubs) ride along
    bodies = {}
    for mf in re.finditer(r"^(?:pub )?(?:unsafe )?fn (\w+)[^\n]*\n(.*?)(?=^(?:pub )?(?:unsafe )?fn |^#\[kani|^macro_rules|^inst|^// TIER|\Z)", s, re.M | re.S):
        bodies[mf.group(1)] = mf.group(2)
    def fn_tags(name, seen=()):
        b = bodies.get(name, "")
        t = set(re.findall(r"\[(C\d+)\]", b))
        armed = "kit::arm()" in b
        for callee in set(re.findall(r"\b(check_\w+)\s*(?:::<[^>]*>)?\(", b)):
            if callee != name and callee not in seen:
                t2, a2 = fn_tags(callee, seen + (name,))
                t |= t2
                armed = armed or a2
        return t, armed
    def harness_tags(fn_name):
        t, armed = fn_tags(fn_name)
        if not t:
            return tags
        if "C01" in tags:
            t.add("C01")
        if armed and "C18" in tags:
            t.add("C18")
        return sorted(x for x in t if x in tags)
    lines = s.split("\n")
    for i, l in enumerate(lines):
        name = None
        tier = "quick"
        heavy = False
        k = kind.group(1) if kind else "harness"
        fn = None
        mm = re.match(r"\s*inst(_t)?!\((\w+),\s*(\w+)", l)
        if mm:
            name, fn = mm.group(2), mm.group(3)
            tier = "thorough" if mm.group(1) else "quick"
        elif re.match(r"\s*#\[kani::proof(_for_contract\((.*)\))?\]", l):
            pc = re.match(r"\s*#\[kani::proof_for_contract\((.*)\)\]", l)
            j = i + 1
            while j < min(len(lines), i + 6) and not re.match(r"\s*(pub )?(unsafe )?fn (\w+)", lines[j]):
                j += 1
            if j < min(len(lines), i + 6):
                name = re.match(r"\s*(pub )?(unsafe )?fn (\w+)", lines[j]).group(3)
            if pc:
                k = "proof_for_contract (in-place kani::requires/ensures/modifies)"
                fn = pc.group(1)
            if i > 0 and "TIER: thorough" in lines[i - 1]:
                tier = "thorough"
                heavy = "heavy" in lines[i - 1]
            if name and "$" in name:
                name = None
        if name:
            hs.append({"name": mod + "::" + name, "kind": k, "function": fn or name, "tags": harness_tags(fn or name) if not (fn and "::" in fn) else tags, "tier": tier, "heavy": heavy, "bounded": bounded.group(1) if bounded else ""})
    groups[g] = {"features": "alloc", "n": {"quick": int(nm.group(1)) if nm else 3, "thorough": int(nm.group(2)) if nm else 4},
                 "unwind_extra": int(ue.group(1)) if ue else 3, "timeout": {"quick": 2400, "thorough": 14000}, "harnesses": hs, "file": "kani/" + f}
json.dump(groups, open(os.path.join(V, "kani", "groups.json"), "w"), indent=1)
for g, G in groups.items():
    print(g, len(G["harnesses"]), "harnesses,", sum(1 for h in G["harnesses"] if h["tier"] == "quick"), "quick")
