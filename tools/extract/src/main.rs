//! Span extractor: parses the given Rust files with syn and prints, as JSON, the byte spans of every
//! struct/enum/trait/fn/impl-fn item plus, per function, the spans of its signature parts, loops and
//! closures. The assembler (tools/assemble.py) copies source text by these spans, so extracted bodies
//! are byte-identical to what rustc compiles.
use proc_macro2::Span;
use quote::ToTokens;
use serde_json::{json, Value};
use syn::spanned::Spanned;
use syn::visit::Visit;

fn rng(s: Span) -> (usize, usize) {
    let r = s.byte_range();
    (r.start, r.end)
}
fn jr(s: Span) -> Value {
    let (a, b) = rng(s);
    json!([a, b, s.start().line, s.end().line])
}

struct BodyV {
    loops: Vec<Value>,
    closures: Vec<Value>,
    macros: Vec<Value>,
}
impl<'ast> Visit<'ast> for BodyV {
    fn visit_expr_loop(&mut self, l: &'ast syn::ExprLoop) {
        self.loops.push(json!({"kind":"loop","span":jr(l.span()),"body":jr(l.body.span())}));
        syn::visit::visit_expr_loop(self, l);
    }
    fn visit_expr_while(&mut self, l: &'ast syn::ExprWhile) {
        self.loops.push(json!({"kind":"while","span":jr(l.span()),"body":jr(l.body.span())}));
        syn::visit::visit_expr_while(self, l);
    }
    fn visit_expr_for_loop(&mut self, l: &'ast syn::ExprForLoop) {
        self.loops.push(json!({"kind":"for","span":jr(l.span()),"body":jr(l.body.span())}));
        syn::visit::visit_expr_for_loop(self, l);
    }
    fn visit_expr_closure(&mut self, c: &'ast syn::ExprClosure) {
        let is_block = matches!(&*c.body, syn::Expr::Block(_));
        self.closures.push(json!({
            "span": jr(c.span()),
            "or1": jr(c.or1_token.span()),
            "or2": jr(c.or2_token.span()),
            "body": jr(c.body.span()),
            "is_block": is_block,
            "has_ret": !matches!(c.output, syn::ReturnType::Default),
        }));
        syn::visit::visit_expr_closure(self, c);
    }
    fn visit_macro(&mut self, m: &'ast syn::Macro) {
        self.macros.push(json!({"path": m.path.to_token_stream().to_string().replace(' ', ""), "span": jr(m.span())}));
        syn::visit::visit_macro(self, m);
    }
}

fn attrs_json(attrs: &[syn::Attribute]) -> Value {
    let mut v = vec![];
    for a in attrs {
        let is_doc = a.path().is_ident("doc");
        v.push(json!({"doc": is_doc, "text": a.to_token_stream().to_string(), "span": jr(a.span())}));
    }
    Value::Array(v)
}

fn first_non_attr_start(item_span: Span, attrs: &[syn::Attribute]) -> usize {
    // byte offset just after the last outer attribute (attributes precede the item proper)
    let mut s = rng(item_span).0;
    for a in attrs {
        let e = rng(a.span()).1;
        if e > s {
            s = e;
        }
    }
    s
}

fn fn_json(key: String, attrs: &[syn::Attribute], vis_start: usize, sig: &syn::Signature, block: Option<&syn::Block>, whole: Span) -> Value {
    let mut bv = BodyV { loops: vec![], closures: vec![], macros: vec![] };
    if let Some(b) = block {
        bv.visit_block(b);
    }
    let ret = match &sig.output {
        syn::ReturnType::Default => Value::Null,
        syn::ReturnType::Type(arrow, ty) => json!({"arrow": jr(arrow.span()), "ty": jr(ty.span())}),
    };
    let wh = match &sig.generics.where_clause {
        None => Value::Null,
        Some(w) => jr(w.span()),
    };
    json!({
        "kind": "fn",
        "key": key,
        "name": sig.ident.to_string(),
        "attrs": attrs_json(attrs),
        "span": jr(whole),
        "start": vis_start,
        "sig": jr(sig.span()),
        "paren_end": rng(sig.paren_token.span.close()).1,
        "ret": ret,
        "where": wh,
        "body": block.map(|b| jr(b.span())).unwrap_or(Value::Null),
        "loops": bv.loops,
        "closures": bv.closures,
        "macros": bv.macros,
        "is_unsafe": sig.unsafety.is_some(),
    })
}

fn type_name(t: &syn::Type) -> String {
    match t {
        syn::Type::Path(p) => p.path.segments.last().map(|s| s.ident.to_string()).unwrap_or_default(),
        syn::Type::Reference(r) => type_name(&r.elem),
        _ => t.to_token_stream().to_string().replace(' ', ""),
    }
}

fn walk_items(items: &[syn::Item], prefix: &str, out: &mut Vec<Value>) {
    for it in items {
        match it {
            syn::Item::Struct(s) => {
                out.push(json!({"kind":"struct","key":format!("{}{}",prefix,s.ident),"attrs":attrs_json(&s.attrs),
                    "span":jr(s.span()),"start":first_non_attr_start(s.span(),&s.attrs),
                    "generics": s.generics.to_token_stream().to_string()}));
            }
            syn::Item::Type(s) => {
                // type aliases are copied like structs (ITEM directive)
                out.push(json!({"kind":"struct","key":format!("{}{}",prefix,s.ident),"attrs":attrs_json(&s.attrs),
                    "span":jr(s.span()),"start":first_non_attr_start(s.span(),&s.attrs),
                    "generics": s.generics.to_token_stream().to_string()}));
            }
            syn::Item::Enum(s) => {
                out.push(json!({"kind":"enum","key":format!("{}{}",prefix,s.ident),"attrs":attrs_json(&s.attrs),
                    "span":jr(s.span()),"start":first_non_attr_start(s.span(),&s.attrs),
                    "generics": s.generics.to_token_stream().to_string()}));
            }
            syn::Item::Fn(f) => {
                let st = first_non_attr_start(f.span(), &f.attrs);
                out.push(fn_json(format!("{}{}", prefix, f.sig.ident), &f.attrs, st, &f.sig, Some(&f.block), f.span()));
            }
            syn::Item::Trait(t) => {
                out.push(json!({"kind":"trait","key":format!("{}{}",prefix,t.ident),"attrs":attrs_json(&t.attrs),
                    "span":jr(t.span()),"start":first_non_attr_start(t.span(),&t.attrs),
                    "brace_open": rng(t.brace_token.span.open()).1, "brace_close": rng(t.brace_token.span.close()).0}));
                for ti in &t.items {
                    if let syn::TraitItem::Type(ty) = ti {
                        out.push(json!({"kind":"trait_type","key":format!("{}{}::{}", prefix, t.ident, ty.ident),"span":jr(ty.span()),
                            "start":first_non_attr_start(ty.span(),&ty.attrs)}));
                    }
                    if let syn::TraitItem::Fn(f) = ti {
                        let st = first_non_attr_start(f.span(), &f.attrs);
                        out.push(fn_json(format!("{}{}::{}", prefix, t.ident, f.sig.ident), &f.attrs, st, &f.sig, f.default.as_ref(), f.span()));
                    }
                }
            }
            syn::Item::Impl(im) => {
                let ty = type_name(&im.self_ty);
                let base = match &im.trait_ {
                    None => format!("{}{}", prefix, ty),
                    Some((_, p, _)) => format!("{}{}@{}", prefix, ty, p.segments.last().map(|s| s.ident.to_string()).unwrap_or_default()),
                };
                let header_end = rng(im.brace_token.span.open()).0;
                out.push(json!({"kind":"impl","key":base.clone(),"attrs":attrs_json(&im.attrs),"span":jr(im.span()),
                    "start":first_non_attr_start(im.span(),&im.attrs),"header_end":header_end,
                    "is_unsafe": im.unsafety.is_some(),
                    "header": im.to_token_stream().to_string().split('{').next().unwrap_or("").to_string()}));
                for ii in &im.items {
                    match ii {
                        syn::ImplItem::Fn(f) => {
                            let st = first_non_attr_start(f.span(), &f.attrs);
                            out.push(fn_json(format!("{}::{}", base, f.sig.ident), &f.attrs, st, &f.sig, Some(&f.block), f.span()));
                        }
                        syn::ImplItem::Type(t) => {
                            out.push(json!({"kind":"impl_type","key":format!("{}::{}",base,t.ident),"span":jr(t.span())}));
                        }
                        _ => {}
                    }
                }
            }
            syn::Item::Mod(m) => {
                if let Some((_, items)) = &m.content {
                    let p = format!("{}{}::", prefix, m.ident);
                    walk_items(items, &p, out);
                }
            }
            syn::Item::Macro(m) => {
                // macro invocations at item level (e.g. `if_std! { ... }`) are not expanded; record them
                out.push(json!({"kind":"item_macro","key":format!("{}{}",prefix,m.mac.path.to_token_stream().to_string()),"span":jr(m.span())}));
            }
            _ => {}
        }
    }
}

fn main() {
    let mut files = serde_json::Map::new();
    for p in std::env::args().skip(1) {
        let src = match std::fs::read_to_string(&p) {
            Ok(s) => s,
            Err(e) => {
                eprintln!("extract: cannot read {}: {}", p, e);
                std::process::exit(2);
            }
        };
        let f = match syn::parse_file(&src) {
            Ok(f) => f,
            Err(e) => {
                eprintln!("extract: cannot parse {}: {}", p, e);
                std::process::exit(2);
            }
        };
        let mut out = vec![];
        // byte_range() in proc-macro2's fallback mode is relative to the file; verify with the first item
        walk_items(&f.items, "", &mut out);
        files.insert(p.clone(), json!({"len": src.len(), "items": out}));
    }
    println!("{}", serde_json::to_string(&Value::Object(files)).unwrap());
}
