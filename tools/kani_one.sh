#!/bin/bash
# usage: kani_one.sh <N> <unwind> <timeout_s> <harness>...   -- run harnesses directly (development aid), report status/time/peak RSS of cbmc
N=$1; U=$2; T=$3; shift 3
H=""; for h in "$@"; do H="$H --harness $h"; done
( peak=0; while sleep 3; do r=$(ps -eo rss,comm | awk '$2=="cbmc"{s+=$1} END{print int(s/1024)}'); [ "${r:-0}" -gt "$peak" ] && peak=$r && echo $peak > /verif/.work/kani_one.peak; done ) &
W=$!
cd /repo && VERIF_KANI_N=$N CARGO_NET_OFFLINE=true timeout $T cargo kani --no-default-features --features alloc -Z function-contracts -Z stubbing --target-dir /verif/.work/kani/target-n$N-u$U --output-format terse --exact -j 8 --default-unwind $U $H 2>&1 | grep -E "^Checking harness|VERIFICATION|Verification Time|out of memory|Failed Checks|^error|Complete"
kill $W 2>/dev/null
echo "peak cbmc RSS MB: $(cat /verif/.work/kani_one.peak)"
