"""Kani side: runs harness groups in place on the repository (cfg(kani) hooks) and parses the results.

kani/groups.json:
  { "<group>": { "features": "alloc", "n": {"quick": 3, "thorough": 4}, "unwind_extra": 3,
                 "harnesses": [ {"name": "<fully qualified harness>", "kind": "contract|harness",
                                 "function": "<real function(s) under check>", "tags": ["C20", ...],
                                 "tier": "quick|thorough", "bounded": "N nodes"|"" , "should_panic": false } ] } }
"""
import json
import os
import re
import subprocess
import time

import vxlib

VERIF = vxlib.VERIF
GROUPS = os.path.join(VERIF, "kani", "groups.json")


def _run(cmd, cwd, env, timeout):
    t0 = time.time()
    try:
        p = subprocess.run(cmd, cwd=cwd, env=env, capture_output=True, text=True, timeout=timeout)
        return p.returncode, p.stdout + "\n" + p.stderr, time.time() - t0
    except subprocess.TimeoutExpired as e:
        out = (e.stdout or b"").decode(errors="replace") if isinstance(e.stdout, bytes) else (e.stdout or "")
        return -9, out + "\nTIMEOUT after %ds" % timeout, time.time() - t0


def parse_terse(out):
    """returns {harness: {status, checks, failed, unreachable, covers_ok, covers_total, time_s, failed_checks:[...]}} """
    res = {}
    thread_h = {}
    cur = None
    single = None
    for line in out.split("\n"):
        m = re.match(r"^(?:Thread (\d+): )?Checking harness ([^\s.]+(?:\.[^\s.]+)*?)\.\.\.\s*$", line)
        if m:
            h = m.group(2)
            res.setdefault(h, {"status": "UNKNOWN", "checks": 0, "failed": 0, "unreachable": 0, "covers_ok": None, "covers_total": None, "time_s": 0.0, "failed_checks": []})
            if m.group(1) is not None:
                thread_h[m.group(1)] = h
            else:
                single = h
                cur = h
            continue
        m = re.match(r"^Thread (\d+):\s*$", line)
        if m:
            cur = thread_h.get(m.group(1))
            continue
        if cur is None:
            continue
        r = res[cur]
        m = re.search(r"\*\* (\d+) of (\d+) failed(?: \((\d+) unreachable\))?", line)
        if m:
            r["failed"], r["checks"] = int(m.group(1)), int(m.group(2))
            r["unreachable"] = int(m.group(3) or 0)
            continue
        m = re.search(r"\*\* (\d+) of (\d+) cover properties satisfied", line)
        if m:
            r["covers_ok"], r["covers_total"] = int(m.group(1)), int(m.group(2))
            continue
        m = re.match(r"^Failed Checks: (.*)$", line)
        if m:
            r["failed_checks"].append({"desc": m.group(1).strip(), "where": ""})
            continue
        m = re.match(r"^\s*File: \"([^\"]+)\", line (\d+), in (.*)$", line)
        if m and r["failed_checks"]:
            r["failed_checks"][-1]["where"] = "%s:%s in %s" % (m.group(1), m.group(2), m.group(3))
            continue
        if line.startswith("CBMC failed") or "run out of memory" in line or "CBMC timed out" in line:
            r["cbmc_error"] = line.strip()
            continue
        m = re.match(r"^VERIFICATION:- (\w+)", line)
        if m:
            r["status"] = "ERROR" if r.get("cbmc_error") else m.group(1)
            continue
        m = re.match(r"^Verification Time: ([0-9.]+)s", line)
        if m:
            r["time_s"] = float(m.group(1))
            continue
    return res


def _tree_key(repo, g, n, unwind):
    """content hash of everything a group run depends on: the repository sources, the harness files, this runner"""
    import hashlib
    h = hashlib.sha256()
    roots = [os.path.join(repo, "src")]
    files = [os.path.join(repo, "Cargo.toml"), os.path.join(repo, "Cargo.lock")]
    # the group's own harness file plus the helper files every group may include
    kd = os.path.join(VERIF, "kani")
    for f in sorted(os.listdir(kd)):
        if f in ("kit.rs", "list.rs", "heap.rs") or f.startswith(g.replace("_shared", "")):
            files.append(os.path.join(kd, f))
    for r in roots:
        for d, _, fs in sorted(os.walk(r)):
            for f in sorted(fs):
                files.append(os.path.join(d, f))
    for f in files:
        if os.path.exists(f) and not f.endswith("groups.json"):
            h.update(f.replace(repo, "<repo>").encode())
            h.update(open(f, "rb").read())
    h.update(("%s|%s|%s" % (g, n, unwind)).encode())
    return h.hexdigest()[:24]


def kani_cmd(features, extra):
    cmd = ["cargo", "kani", "--no-default-features"]
    if features:
        cmd += ["--features", features]
    cmd += ["-Z", "function-contracts", "-Z", "stubbing"] + extra
    return cmd


def run_groups(prop, groups, tier, workdir, only_harness=None):
    allg = json.load(open(GROUPS))
    os.makedirs(workdir, exist_ok=True)
    infra, failed, harness_ev, cmds, samples = [], [], [], [], []
    checks = failed_checks = 0
    solver_s = 0.0
    repo = vxlib.REPO
    alt = os.path.realpath(repo) != "/repo"
    # ---- phase 1: which groups can reuse results (byte-identical inputs), which must run
    # Results of a group are reused between the checks of different properties ONLY when every input is byte-identical
    # (sources of the repository, the group's harness files, harness list, tier); VERIF_NOCACHE=1 disables the reuse.
    cdir = os.path.join(vxlib.WORK, "kani", "cache")
    os.makedirs(cdir, exist_ok=True)
    plan = []
    for g in groups:
        if g not in allg:
            raise vxlib.Infra("unknown kani group %s" % g)
        G = allg[g]
        n = G.get("n", {}).get(tier, G.get("n", {}).get("quick", 3))
        hs = [h for h in G["harnesses"] if prop in h["tags"] and (tier == "thorough" or h.get("tier", "quick") == "quick")]
        if only_harness:
            hs = [h for h in hs if h["name"] == only_harness]
        if not hs:
            continue
        unwind = n + G.get("unwind_extra", 3)
        key = _tree_key(repo, g, n, unwind)
        kdir = os.path.join(cdir, key)
        os.makedirs(kdir, exist_ok=True)
        res = {}
        if not os.environ.get("VERIF_NOCACHE") and not only_harness:
            for h in hs:
                cf = os.path.join(kdir, h["name"].replace("::", ".") + ".json")
                if os.path.exists(cf):
                    try:
                        res[h["name"]] = json.load(open(cf))
                    except Exception:
                        pass
        todo = [h for h in hs if h["name"] not in res]
        plan.append({"g": g, "G": G, "n": n, "unwind": unwind, "hs": hs, "todo": todo, "key": key, "kdir": kdir, "res": res,
                     "reused": set(res.keys())})
    # ---- phase 2: one `cargo kani` invocation per (N, unwind, features) class: the crate is compiled once per class
    classes = {}
    for pl in plan:
        if pl["todo"]:
            classes.setdefault((pl["n"], pl["unwind"], pl["G"].get("features", "alloc")), []).append(pl)
    for (n, unwind, feats), pls in classes.items():
        tag = "+".join(pl["g"] for pl in pls)
        tdir = os.path.join(workdir if alt else os.path.join(vxlib.WORK, "kani"), "target-n%s-u%s" % (n, unwind))
        env = dict(os.environ, CARGO_NET_OFFLINE="true", VERIF_KANI_N=str(n), CARGO_TERM_COLOR="never")
        env.pop("RUSTUP_TOOLCHAIN", None)
        tmo = sum(pl["G"].get("timeout", {}).get(tier, 3000) for pl in pls)
        owner = {h["name"]: pl for pl in pls for h in pl["todo"]}
        normal = [h["name"] for pl in pls for h in pl["todo"] if not h.get("heavy")]
        heavy = [h["name"] for pl in pls for h in pl["todo"] if h.get("heavy")]

        def invoke(names, jobs, label):
            """one `cargo kani` run over `names`; returns parsed results or None (infra recorded)"""
            extra = ["--target-dir", tdir, "--output-format", "terse", "--exact", "-j", str(jobs), "--default-unwind", str(unwind)]
            for nm in names:
                extra += ["--harness", nm]
            cmd = kani_cmd(feats, extra)
            short = kani_cmd(feats, ["--target-dir", tdir, "--output-format", "terse", "--exact", "-j", str(jobs), "--default-unwind", str(unwind), "--harness", "<%d harnesses of groups %s%s>" % (len(names), tag, label)])
            cmds.append("(cd %s && VERIF_KANI_N=%s CARGO_NET_OFFLINE=true %s)" % (repo, n, " ".join(short)))
            rc, out, wall = _run(cmd, repo, env, tmo)
            open(os.path.join(workdir, "kani_%s%s.log" % (tag[:80], label.replace(" ", "_").replace(",", ""))), "w").write(out)
            if rc == -9:
                infra.append("groups %s%s: timeout after %ds" % (tag, label, tmo))
                return None
            if re.search(r"^error(\[E\d+\])?:", out, re.M) and "Checking harness" not in out:
                infra.append("groups %s: build failed: %s" % (tag, "\n".join(l for l in out.split("\n") if l.startswith("error"))[:1500]))
                return None
            return parse_terse(out)

        def record(allres, names):
            for nm in names:
                r = allres.get(nm)
                if r is None:
                    continue
                pl = owner[nm]
                pl["res"][nm] = r
                if r["status"] in ("SUCCESSFUL", "FAILED") and not only_harness:
                    json.dump(r, open(os.path.join(pl["kdir"], nm.replace("::", ".") + ".json"), "w"))

        build_ok = True
        if normal:
            allres = invoke(normal, min(len(normal), int(os.environ.get("VERIF_KANI_JOBS", "14"))), "")
            if allres is None:
                build_ok = False
            else:
                record(allres, normal)
        # memory-heavy harnesses run one at a time, after the batch, so that their peaks never add up
        if heavy and build_ok:
            allres = invoke(heavy, 1, " heavy, serial")
            if allres is not None:
                record(allres, heavy)
        # a harness that CBMC could not finish for lack of memory (machine busy) is retried once, alone
        if build_ok:
            oom = [nm for nm in normal + heavy if owner[nm]["res"].get(nm, {}).get("status") == "ERROR"]
            if oom and len(oom) <= 8:
                allres = invoke(oom, 1, " retry after out-of-memory, serial")
                if allres is not None:
                    record(allres, oom)
    # ---- phase 3: verdicts
    for pl in plan:
        g, G, n, hs, res = pl["g"], pl["G"], pl["n"], pl["hs"], pl["res"]
        for h in hs:
            r = res.get(h["name"])
            if r is None:
                infra.append("group %s: harness %s produced no result (renamed/removed? unsupported construct?) -- see %s" % (g, h["name"], os.path.join(workdir, "kani_%s.log" % g)))
                continue
            sp = h.get("should_panic", False)
            ok = r["status"] == "SUCCESSFUL"
            checks += max(r["checks"], 1)
            solver_s += r["time_s"]
            ev = {"harness": h["name"], "kind": h["kind"], "function": h.get("function"), "group": g, "N": n, "bounded": h.get("bounded", "<= %d nodes" % n),
                  "checks": r["checks"], "failed": r["failed"], "covers": [r["covers_ok"], r["covers_total"]], "time_s": r["time_s"], "status": r["status"],
                  "run": ("reused (identical inputs, key %s)" if h["name"] in pl["reused"] else "fresh run (key %s)") % pl["key"]}
            harness_ev.append(ev)
            if r["covers_total"] and r["covers_ok"] != r["covers_total"]:
                infra.append("harness %s: only %s of %s cover properties satisfied (vacuous pre-state?)" % (h["name"], r["covers_ok"], r["covers_total"]))
            if not ok:
                fc = r["failed_checks"] or [{"desc": "verification failed", "where": ""}]
                # unwinding assertion failures are infrastructure, not violations
                if all("unwinding assertion" in f["desc"] for f in fc):
                    infra.append("harness %s: unwinding assertion failed (bound too small)" % h["name"])
                    continue
                if r["status"] not in ("FAILED",):
                    infra.append("harness %s: status %s" % (h["name"], r["status"]))
                    continue
                failed_checks += max(r["failed"], 1)
                # one violation entry per property the failed checks are tagged with ("[Cxx] ..." message prefix);
                # untagged failures (pointer checks, panics inside the library) are memory-safety / panic-freedom: C01
                by_prop = {}
                for f in fc:
                    if "unwinding assertion" in f["desc"]:
                        continue
                    m2 = re.findall(r"\[(C\d+)\]", f["desc"])
                    props = m2 if m2 else (["C01"] if "C01" in h["tags"] else h["tags"])
                    for p_ in props:
                        by_prop.setdefault(p_, []).append(f)
                for p_, fl in by_prop.items():
                    name = "kani::%s::%s" % (h["name"], re.sub(r"\s+", " ", fl[0]["desc"])[:120])
                    failed.append({"name": name, "tags": [p_], "kind": h["kind"], "harness": h["name"], "group": g, "N": n,
                                   "rendered": "\n".join("%s  @ %s" % (f["desc"], f["where"]) for f in fl), "clause": h.get("function"), "fn": h.get("function")})
            if len(samples) < 3:
                samples.append({"obligation": "kani::" + h["name"], "function": h.get("function"), "checks": r["checks"], "status": r["status"], "bound": ev["bounded"]})
    # concrete counterexamples for failed harnesses (replay channel)
    for e in [x for x in failed if prop in x["tags"]][:3]:
        try:
            e["counterexample"] = playback(e, allg[e["group"]], tier, workdir)
        except Exception as ex:  # never turn a violation into a crash
            e["counterexample"] = None
            e["replay_note"] = "concrete playback failed: %s" % ex
    if alt:
        # scratch-tree runs build into their own target directories (GBs each): remove them as soon as the verdict is in
        import glob
        import shutil
        for d in glob.glob(os.path.join(workdir, "target-*")):
            shutil.rmtree(d, ignore_errors=True)
    return {"infra": infra, "failed": failed, "checks": checks, "failed_checks": failed_checks, "solver_s": solver_s,
            "harnesses": harness_ev, "cmds": cmds, "samples": samples}


def playback(e, G, tier, workdir):
    """re-run one failed harness with concrete playback: returns the generated unit test (concrete bytes) as text"""
    n = e["N"]
    repo = vxlib.REPO
    tdir = os.path.join(workdir, "target-playback")
    env = dict(os.environ, CARGO_NET_OFFLINE="true", VERIF_KANI_N=str(n), CARGO_TERM_COLOR="never")
    env.pop("RUSTUP_TOOLCHAIN", None)
    cmd = kani_cmd(G.get("features", "alloc"), ["--target-dir", tdir, "--exact", "--harness", e["harness"], "--default-unwind", str(n + G.get("unwind_extra", 3)),
                                                "-Z", "concrete-playback", "--concrete-playback=print"])
    rc, out, wall = _run(cmd, repo, env, 1800)
    m = re.search(r"(#\[test\]\s*\n\s*fn kani_concrete_playback.*?\n\})", out, re.S)
    if not m:
        return None
    return {"harness": e["harness"], "unit_test": m.group(1), "how_to_run": "paste into the harness module and run `cargo kani playback -Z concrete-playback -- <test name>` in the repository"}
