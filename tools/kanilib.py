"""Kani side (filled in later): run harness groups in /repo under cfg(kani)."""
import vxlib


def run_groups(prop, groups, tier, workdir):
    raise vxlib.Infra("kani groups not implemented yet")
