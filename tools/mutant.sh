#!/bin/bash
# usage: tools/mutant.sh <scratchdir> [patch.diff]   -- make a scratch copy of /repo (no target, no .git) and optionally apply a patch
set -e
d=$1; rm -rf "$d"; mkdir -p "$d"; rsync -a --exclude target --exclude .git /repo/ "$d"/
if [ -n "$2" ]; then (cd "$d" && patch -p1 -s < "$2"); fi
