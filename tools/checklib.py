#!/usr/bin/env python3
"""Driver shared by bin/check: property -> engines -> verdict -> evidence (DESIGN.md section 4)."""
import hashlib
import json
import os
import re
import subprocess
import sys
import time

import vxlib
import kanilib
import typelib

VERIF = vxlib.VERIF
REPO = vxlib.REPO
REGISTRY = os.path.join(VERIF, "contracts", "registry.json")
KNOWN = os.path.join(VERIF, "known_findings.txt")
EVID = os.path.join(VERIF, "evidence")
REPLAY = os.path.join(VERIF, "replay")


def load_known():
    """known_findings.txt:  `finding: property=Cxx obligation=<exact name> <text>`  |  `fixed: property=Cxx <commit> <text>`"""
    out = []
    if os.path.exists(KNOWN):
        for l in open(KNOWN):
            l = l.strip()
            m = re.match(r"finding:\s+property=(\S+)\s+obligation=(\S+)\s*(.*)$", l)
            if m:
                out.append({"property": m.group(1), "obligation": m.group(2), "text": m.group(3)})
    return out


def repo_state():
    try:
        head = subprocess.run(["git", "-C", REPO, "rev-parse", "HEAD"], capture_output=True, text=True).stdout.strip()
        dirty = subprocess.run(["git", "-C", REPO, "status", "--porcelain", "--", "src", "Cargo.toml"], capture_output=True, text=True).stdout.strip()
    except Exception:
        head, dirty = "?", ""
    h = hashlib.sha256()
    for root, _, files in sorted(os.walk(os.path.join(REPO, "src"))):
        for f in sorted(files):
            p = os.path.join(root, f)
            h.update(p.encode())
            h.update(open(p, "rb").read())
    return {"head": head, "dirty": bool(dirty), "src_sha256": h.hexdigest()[:16]}


def write_replay(prop, idx, entry, extra):
    d = os.path.join(REPLAY, prop)
    os.makedirs(d, exist_ok=True)
    safe = re.sub(r"[^A-Za-z0-9_.#@-]+", "_", entry["name"])[:150]
    p = os.path.join(d, "%02d_%s.json" % (idx, safe))
    body = {"property": prop, "obligation": entry["name"], "engine": entry.get("engine"), "kind": entry.get("kind"),
            "tags": entry.get("tags"), "clause": entry.get("clause"), "exit_in_repo": entry.get("exit"),
            "verifier_output": entry.get("rendered"), "counterexample": entry.get("counterexample"), "harness": entry.get("harness"),
            "replay": ("concrete counterexample attached (Kani concrete playback): the unit test under `counterexample.unit_test` feeds these bytes to the harness; `bin/check %s --replay <this file>` re-runs exactly this harness on the current tree" % prop) if entry.get("counterexample") else entry.get("replay_note", "no-failing-input-found: the verifier gave no concrete input; "
                                "re-run `bin/check %s --replay <this file>` to re-check this obligation against the current tree" % prop)}
    body.update(extra)
    json.dump(body, open(p, "w"), indent=1)
    return p


def main(argv):
    if not argv:
        print(__doc__)
        return 2
    prop = argv[0]
    tier = os.environ.get("VERIF_TIER", "quick")
    replay = None
    i = 1
    while i < len(argv):
        if argv[i] == "--tier":
            tier = argv[i + 1]
            i += 2
        elif argv[i] == "--replay":
            replay = argv[i + 1]
            i += 2
        else:
            i += 1
    seed = int(os.environ.get("VERIF_SEED", "0") or 0)
    t0 = time.time()
    reg = json.load(open(REGISTRY))
    if prop not in reg["properties"]:
        print("check: property %s is not claimed (see MANIFEST.json not_applicable)" % prop)
        return 2
    pr = reg["properties"][prop]
    alt = (os.path.realpath(REPO) != "/repo") or bool(os.environ.get("VERIF_NO_EVIDENCE"))
    global EVID, REPLAY
    if alt:
        # scratch-tree run (self-test / mutation smoke test): keep /verif/evidence and /verif/replay for /repo itself
        base = os.path.join(vxlib.WORK, "alt", "%d" % os.getpid())
        EVID = os.path.join(base, "evidence")
        REPLAY = os.path.join(base, "replay")
        work = os.path.join(base, "run", prop)
    else:
        work = os.path.join(vxlib.WORK, "run", prop)
    os.makedirs(work, exist_ok=True)
    infra = []
    failed = []  # entries tagged with prop
    other_failed = []
    units_ev = []
    functions = []
    obligations = 0
    discharged = 0
    trusted = {}
    samples = []
    solver_ms = 0
    cmds = []
    only = None
    only_harness = None
    if replay:
        rj = json.load(open(replay))
        only = rj["obligation"]
        only_harness = rj.get("harness")
        print("replaying obligation %s against the current tree" % only)

    # ---------------- Verus units ----------------
    from concurrent.futures import ThreadPoolExecutor
    units = pr.get("verus_units", []) if not only_harness else []

    def do_unit(u):
        try:
            return u, vxlib.verify_unit(reg["units"][u], os.path.join(work, "verus"), want_canary=True), None
        except vxlib.Infra as e:
            return u, None, str(e)

    with ThreadPoolExecutor(max_workers=8) as pool:
        results = list(pool.map(do_unit, units))
    for (u, out, err) in results:
        if err:
            infra.append("[verus:%s] %s" % (u, err))
            continue
        asm = out["asm"]
        for x in out["infra"]:
            infra.append("[verus:%s] %s" % (u, x))
        cmds.append(out["res"]["cmd"])
        ft = vxlib.fn_times(out["res"])
        solver_ms += sum(v["ms"] for v in ft.values())
        failed_names = set(e["name"] for e in out["failed"])
        tagged = [c for c in asm.clauses if prop in c["tags"] and c["section"] != "requires"]
        body_fns = [f for f in asm.functions if f["kind"] == "fn" and prop in f.get("body_tags", [])]
        n_ob = len(tagged) + sum(f["panic_sites"] for f in body_fns)
        n_failed_here = 0
        for e in out["failed"]:
            e["engine"] = "verus/z3"
            e["unit"] = u
            if prop in e["tags"]:
                failed.append(e)
                n_failed_here += 1
            else:
                other_failed.append(e)
        obligations += n_ob
        discharged += max(0, n_ob - n_failed_here)
        if not tagged and not body_fns:
            infra.append("[verus:%s] vacuity: unit is registered for %s but carries no obligation tagged %s" % (u, prop, prop))
        for f in asm.functions:
            if f["kind"] == "fn":
                nm = [k for k in ft if k.endswith("::" + f["key"])]
                functions.append({"unit": u, "function": f["key"], "file": f["file"], "lines": f["lines"], "sha256_16": f["sha256"],
                                  "clauses_tagged_%s" % prop: sum(1 for c in tagged if c["fn"] == f["key"]),
                                  "verus_ms": ft[nm[0]]["ms"] if nm else None, "rlimit": ft[nm[0]]["rlimit"] if nm else None,
                                  "verbatim_body": True, "backend": "verus 0.2026.09.13 / z3"})
        for k, v in vxlib.scan_trusted(asm.text()).items():
            trusted["%s:%s" % (u, k)] = v
        for c in tagged[:3]:
            samples.append({"obligation": c["name"], "tags": c["tags"], "clause": c["text"][:300], "status": "FAILED" if c["name"] in failed_names else "discharged"})
        units_ev.append({"unit": u, "template": reg["units"][u], "verified_functions": (out["res"]["json"] or {}).get("verification-results", {}).get("verified"),
                         "clauses_total": len(asm.clauses), "clauses_tagged": len(tagged), "body_obligation_sites": sum(f["panic_sites"] for f in body_fns),
                         "canary": out["canary"], "wall_s": round(out["res"]["wall_s"], 2)})

    # ---------------- Kani groups ----------------
    kres = None
    kani_checks = kani_passed = 0
    skipped_kani = False
    if pr.get("kani_groups") and failed and not infra and os.environ.get("VERIF_FAILFAST", "1") != "0" and not only_harness:
        # a violation is already established by a refuted Verus obligation: the (expensive, bounded) Kani groups cannot
        # change the verdict and are skipped; VERIF_FAILFAST=0 runs them anyway
        skipped_kani = True
    elif pr.get("kani_groups"):
        try:
            kres = kanilib.run_groups(prop, pr["kani_groups"], tier if not only_harness else "thorough", os.path.join(work, "kani"), only_harness=only_harness)
        except vxlib.Infra as e:
            infra.append("[kani] %s" % e)
        if kres:
            infra += ["[kani] " + x for x in kres["infra"]]
            for e in kres["failed"]:
                e["engine"] = "kani/cbmc"
                if prop in e["tags"]:
                    failed.append(e)
                else:
                    other_failed.append(e)
            kani_checks = kres["checks"]
            kani_passed = kres["checks"] - kres["failed_checks"]
            if pr["level"] != "proof":
                # bounded Kani checks count as obligations only where the claimed level is itself bounded
                obligations += kani_checks
                discharged += kani_passed
            solver_ms += int(kres["solver_s"] * 1000)
            cmds += kres["cmds"][:3]
            samples += kres["samples"][:3]

    # ---------------- type-level probes (C16) ----------------
    tres = None
    if pr.get("type_probes") and not only_harness:
        try:
            tres = typelib.run(prop, tier, os.path.join(work, "types"))
        except vxlib.Infra as e:
            infra.append("[rustc] %s" % e)
        if tres:
            infra += ["[rustc] " + x for x in tres["infra"]]
            for e in tres["failed"]:
                e["engine"] = "rustc trait solver"
                failed.append(e)
            obligations += tres["probes"]
            discharged += tres["probes"] - len(tres["failed"])
            cmds += tres["cmds"][:2]
            samples += tres["samples"][:4]

    # ---------------- build probes (C18: the no-alloc configuration must build without the alloc crate) ----------------
    bres = None
    if pr.get("build_probes") and not only_harness:
        bres = []
        for bp in pr["build_probes"]:
            tdir = os.path.join(work if alt else vxlib.WORK, "build-probe-target")
            cmd = bp["cmd"] + ["--target-dir", tdir]
            env = dict(os.environ, CARGO_NET_OFFLINE="true", CARGO_TERM_COLOR="never")
            env.pop("RUSTUP_TOOLCHAIN", None)
            p = subprocess.run(cmd, cwd=REPO, env=env, capture_output=True, text=True, timeout=1200)
            ok = p.returncode == 0
            # the alloc crate must only be nameable behind the `alloc` feature
            lib = open(os.path.join(REPO, "src", "lib.rs")).read()
            gated = re.search(r"#\[cfg\(feature = \"alloc\"\)\]\s*extern crate alloc;", lib) is not None and len(re.findall(r"extern crate alloc", lib)) == 1
            obligations += 2
            cmds.append("(cd %s && %s)" % (REPO, " ".join(cmd)))
            if ok and gated:
                discharged += 2
            else:
                failed.append({"name": "build::%s" % bp["name"], "tags": [prop], "engine": "rustc", "kind": "build probe",
                               "rendered": (p.stderr[-2500:] if not ok else "`extern crate alloc` is not gated by the alloc feature"),
                               "clause": bp["doc"], "counterexample": {"command": " ".join(cmd), "cwd": REPO}})
            bres.append({"name": bp["name"], "ok": ok and gated, "doc": bp["doc"]})
            samples.append({"obligation": "build::" + bp["name"], "what": bp["doc"], "status": "discharged" if ok and gated else "FAILED"})

    # ---------------- verdict ----------------
    known = [k for k in load_known() if k["property"] == prop]
    known_names = set(k["obligation"] for k in known)
    if only:
        failed = [e for e in failed if e["name"] == only]
    new_viol = [e for e in failed if e["name"] not in known_names]
    known_hit = [e for e in failed if e["name"] in known_names]
    wall = time.time() - t0
    rc = 0
    lines = []
    if infra:
        rc = 2
    replay_paths = []
    # a violation needs an engine that ran cleanly: a failed Kani check (counterexample on the real code), type or build
    # probe stands even if the Verus side of this property is undecided (unsupported construct, lost anchor, rlimit)
    kani_clean = not any(x.startswith("[kani]") for x in infra)
    solid = [e for e in new_viol if (e.get("engine") == "kani/cbmc" and kani_clean) or e.get("engine") in ("rustc trait solver", "rustc")]
    if new_viol and not infra:
        rc = 1
    elif solid:
        rc = 1
        new_viol = solid
    # evidence
    level = pr["level"]
    cov = {
        "obligations": obligations,
        "discharged": discharged if not infra else 0,
        "checker_cmd": "; ".join(cmds[:6]) if cmds else "n/a",
        "trusted_base": sorted("%s x%d" % (k, v) for k, v in trusted.items()) + pr.get("trusted_base", []),
        "functions_under_contract": functions,
        "verus_units": units_ev,
        "obligations_backend": "verus 0.2026.09.13 / z3 (deductive, unbounded)" if pr["level"] == "proof" else "see level",
        "bounded_kani_checks": kani_checks,
        "bounded_kani_checks_passed": kani_passed,
        "bounded_kani_harnesses": len(kres["harnesses"]) if kres else 0,
        "kani_skipped_fail_fast": skipped_kani,
        "bounded_note": "Kani/CBMC checks are bounded stand-ins; for a proof-level claim they are listed here and under `kani`, and are NOT counted in obligations/discharged" if pr["level"] == "proof" else "",
        "kani": kres["harnesses"] if kres else [],
        "type_probes": tres["summary"] if tres else None,
        "build_probes": bres,
        "solver_time_ms": solver_ms,
        "samples": samples or [{"note": "no obligations generated"}],
        "bounded_parts": pr.get("bounded_parts", []),
        "explanation": pr.get("explanation", ""),
        "repo": repo_state(),
        "failed_obligations": [e["name"] for e in failed],
        "failed_obligations_other_properties": sorted(set(e["name"] for e in other_failed)),
        "known_findings_matched": [e["name"] for e in known_hit],
        "infrastructure_errors": infra,
        "evaluations": obligations,
        "distinct_nontrivial": discharged if not infra else 0,
        "rule": "one evaluation = one named proof obligation (tagged contract clause, panic-freedom site, Kani check, or type probe) generated from /repo's current source",
    }
    ev = {"property_id": prop, "tier": tier if tier in ("quick", "thorough") else "quick", "seed": seed, "level": level, "coverage": cov,
          "assumptions": pr.get("assumptions", []), "wall_s": round(wall, 2), "violations": len(new_viol)}
    os.makedirs(EVID, exist_ok=True)
    if not replay:
        tmp = os.path.join(EVID, prop + ".json.tmp")
        json.dump(ev, open(tmp, "w"), indent=1)
        os.replace(tmp, os.path.join(EVID, prop + ".json"))
    print("check %s tier=%s: obligations=%d discharged=%d bounded-kani-checks=%d/%d failed(tagged)=%d other-failed=%d infra=%d wall=%.1fs" %
          (prop, tier, obligations, discharged, kani_passed, kani_checks, len(failed), len(other_failed), len(infra), wall))
    for x in infra:
        print("INFRA: " + x[:2000])
    for e in known_hit:
        print("KNOWN-FINDING: property=%s %s" % (prop, e["name"]))
    if rc == 1:
        for idx, e in enumerate(new_viol):
            p = e.get("replay_path") or write_replay(prop, idx, e, {"repo": cov["repo"]})
            suffix = "" if e.get("counterexample") else " no-failing-input-found"
            print("  failed obligation: %s [%s] %s" % (e["name"], e.get("engine"), (e.get("exit") or "")))
            print("VIOLATION property=%s replay=%s%s" % (prop, p, suffix))
    elif rc == 2:
        print("UNDECIDED property=%s (infrastructure; no verdict)" % prop)
    else:
        print("OK property=%s" % prop)
    return rc
