#!/usr/bin/env python3
import sys, os, json
sys.path.insert(0, os.path.dirname(os.path.abspath(__file__)))
import vxlib
u = sys.argv[1]
try:
    out = vxlib.verify_unit(u, os.path.join(vxlib.WORK, "try"), want_canary="--nocanary" not in sys.argv)
except vxlib.Infra as e:
    print("INFRA:", e); sys.exit(2)
print("unit", out["unit"], "wall", round(out["res"]["wall_s"],1), "verified", out["res"]["json"] and out["res"]["json"]["verification-results"])
for f in out["failed"]:
    print("FAILED", f["name"], f["tags"], f["kind"], f.get("exit"))
    if "-v" in sys.argv: print(f["rendered"])
for i in out["infra"]:
    print("INFRA", i[:3000])
print("clauses", len(out["asm"].clauses), "canary", out["canary"])
