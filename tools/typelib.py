"""C16: rustc trait-solver probes (DESIGN.md 5 C16).  Every probe is a program that must compile."""
import json
import os
import shutil
import subprocess
import sys
import time

import vxlib

sys.path.insert(0, os.path.join(vxlib.VERIF, "typeprobes"))


def run(prop, tier, workdir):
    import gen
    os.makedirs(workdir, exist_ok=True)
    crate = os.path.join(workdir, "crate")
    table = gen.main(crate, os.path.realpath(vxlib.REPO))
    # each probe belongs to one property (C16 unless it says otherwise); only those of `prop` are compiled and judged
    table = [t for t in table if t.get("prop", "C16") == prop]
    lock = os.path.join(vxlib.REPO, "Cargo.lock")
    if os.path.exists(lock):
        shutil.copy(lock, os.path.join(crate, "Cargo.lock"))
    env = dict(os.environ, CARGO_NET_OFFLINE="true", CARGO_TERM_COLOR="never")
    env.pop("RUSTUP_TOOLCHAIN", None)
    tdir = os.path.join(vxlib.WORK, "types-target") if os.path.realpath(vxlib.REPO) == "/repo" else os.path.join(workdir, "target")
    cmd = ["cargo", "check", "--offline", "--keep-going", "--message-format=json", "--target-dir", tdir]
    for t in table:
        cmd += ["--example", t["name"]]
    t0 = time.time()
    p = subprocess.run(cmd, cwd=crate, env=env, capture_output=True, text=True, timeout=1800)
    wall = time.time() - t0
    errs = {}
    built = set()
    infra = []
    for l in p.stdout.split("\n"):
        if not l.startswith("{"):
            continue
        try:
            j = json.loads(l)
        except Exception:
            continue
        if j.get("reason") == "compiler-message" and j["message"].get("level") == "error":
            tgt = j.get("target", {})
            if "example" in tgt.get("kind", []):
                errs.setdefault(tgt["name"], []).append(j["message"].get("rendered") or j["message"].get("message"))
            else:
                infra.append("error outside the probes (%s): %s" % (tgt.get("name"), (j["message"].get("rendered") or "")[:800]))
        if j.get("reason") == "compiler-artifact" and "example" in j.get("target", {}).get("kind", []):
            built.add(j["target"]["name"])
    failed = []
    samples = []
    for t in table:
        ok = t["name"] in built and t["name"] not in errs
        if not ok and t["name"] not in errs:
            infra.append("probe %s neither compiled nor reported an error: %s" % (t["name"], p.stderr[-600:]))
            continue
        if not ok:
            msg = "\n".join(errs[t["name"]])[:3000]
            # a negative probe fails ONLY by ambiguity (E0283/E0282/E0284 'type annotations needed'); anything else is infrastructure
            if t["kind"] == "negative" and not ("type annotations needed" in msg or "E0283" in msg or "E0282" in msg or "E0284" in msg):
                infra.append("negative probe %s failed for an unrelated reason: %s" % (t["name"], msg[:800]))
                continue
            if t["kind"] == "alias" and not ("mismatched types" in msg or "E0308" in msg):
                infra.append("alias probe %s failed for an unrelated reason: %s" % (t["name"], msg[:800]))
                continue
            if t["kind"] == "positive" and not ("cannot be sent between threads" in msg or "cannot be shared between threads" in msg or "E0277" in msg):
                infra.append("positive probe %s failed for an unrelated reason: %s" % (t["name"], msg[:800]))
                continue
            src = os.path.join(crate, "examples", t["name"] + ".rs")
            failed.append({"name": "types::%s::%s" % (t["kind"], t["name"]), "tags": [t.get("prop", "C16")], "kind": "type probe (%s)" % t["kind"], "rendered": msg,
                           "clause": t["doc"], "counterexample": {"program": open(src).read(), "how_to_run": "place under examples/ of a crate depending on the repository and run `cargo check --example %s`: it must compile" % t["name"]}})
        if len(samples) < 4:
            samples.append({"obligation": "types::%s::%s" % (t["kind"], t["name"]), "what": t["doc"], "status": "discharged" if ok else "FAILED"})
    return {"infra": infra, "failed": failed, "probes": len(table), "cmds": ["(cd <generated probe crate> && " + " ".join(cmd) + ")"], "samples": samples,
            "summary": {"probes": len(table), "positive": sum(1 for t in table if t["kind"] == "positive"), "negative": sum(1 for t in table if t["kind"] == "negative"),
                        "failed": [f["name"] for f in failed], "wall_s": round(wall, 1)}}
