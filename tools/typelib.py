"""rustc trait-solver probes for C16 (filled in later)."""
import vxlib


def run(prop, tier, workdir):
    raise vxlib.Infra("type probes not implemented yet")
