#!/usr/bin/env python3
"""Quick mutation smoke test: tools/muttest.py <catalogue.json> -- each entry {file, old, new, props:[..expected to fire..], quiet:[..expected NOT to fire..]}"""
import json, os, subprocess, sys, shutil
cat = json.load(open(sys.argv[1]))
only = sys.argv[2:] 
ok = True
for i, m in enumerate(cat):
    if only and m.get("name") not in only: continue
    d = "/tmp/mt_%d" % os.getpid()
    subprocess.run(["/verif/tools/mutant.sh", d], check=True)
    p = os.path.join(d, m["file"])
    s = open(p).read()
    if s.count(m["old"]) != 1:
        print("MUTANT %s: anchor occurs %d times" % (m.get("name", i), s.count(m["old"]))); ok = False; continue
    open(p, "w").write(s.replace(m["old"], m["new"]))
    res = {}
    for prop in m.get("props", []) + m.get("quiet", []):
        r = subprocess.run(["/verif/bin/check", prop], env=dict(os.environ, VERIF_REPO=d, VERIF_NO_EVIDENCE="1"), capture_output=True, text=True)
        res[prop] = r.returncode
    shutil.rmtree(d)
    good = all(res[p] == 1 for p in m.get("props", [])) and all(res[p] == 0 for p in m.get("quiet", []))
    print("%s %-40s %s" % ("ok  " if good else "BAD ", m.get("name", i), res))
    ok = ok and good
sys.exit(0 if ok else 1)
