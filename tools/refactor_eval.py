#!/usr/bin/env python3
"""refactor_eval.py <id> <diff> <prop>[,<prop>...]
False-alarm test: applies a behaviour-preserving refactoring to a scratch copy of /repo, confirms the pinned suite still
passes, and runs the checks: every check must exit 0 (2 = undecided is tolerated and recorded; 1 = FALSE ALARM)."""
import json, os, re, shutil, subprocess, sys, time
V = os.path.dirname(os.path.dirname(os.path.abspath(__file__)))
rid, diff, props = sys.argv[1], sys.argv[2], sys.argv[3].split(",")
d = "/tmp/refac_%s_%d" % (rid, os.getpid())
subprocess.run([os.path.join(V, "tools/mutant.sh"), d], check=True)
r = subprocess.run(["git", "apply", "--unsafe-paths", "--directory=" + d, diff], cwd="/", capture_output=True, text=True)
if r.returncode != 0:
    r = subprocess.run(["patch", "-p1", "-i", diff], cwd=d, capture_output=True, text=True)
    assert r.returncode == 0, r.stdout + r.stderr
tgt = "/tmp/refac_target_%d" % os.getpid()
subprocess.run(["cp", "-r", "/tmp/seed_target" if os.path.isdir("/tmp/seed_target") else "/repo/target", tgt], check=True)
env = dict(os.environ, CARGO_TARGET_DIR=tgt, CARGO_NET_OFFLINE="true")
t = subprocess.run(["cargo", "test", "--offline"], cwd=d, env=env, capture_output=True, text=True)
passed = sum(int(x) for x in re.findall(r"test result: ok\. (\d+) passed", t.stdout))
shutil.rmtree(tgt, ignore_errors=True)
res = {}
for p in props:
    c = subprocess.run([os.path.join(V, "bin/check"), p], env=dict(os.environ, VERIF_REPO=d), capture_output=True, text=True)
    res[p] = {"rc": c.returncode, "lines": [l[:300] for l in c.stdout.split("\n") if l.startswith("VIOLATION") or l.startswith("INFRA") or "failed obligation" in l][:6]}
shutil.rmtree(d)
out = os.path.join(V, "seeded", "refactors")
os.makedirs(out, exist_ok=True)
if os.path.abspath(diff) != os.path.abspath(os.path.join(out, rid + ".diff")):
    shutil.copy(diff, os.path.join(out, rid + ".diff"))
meta = {"id": rid, "kind": "behaviour-preserving refactoring (false-alarm test)", "suite_passed": passed, "suite_rc": t.returncode, "checks": res,
        "false_alarm": any(v["rc"] == 1 for v in res.values()), "undecided": [p for p, v in res.items() if v["rc"] == 2]}
json.dump(meta, open(os.path.join(out, rid + ".json"), "w"), indent=1)
print(rid, "suite", passed, t.returncode, {p: v["rc"] for p, v in res.items()})
