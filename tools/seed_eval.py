#!/usr/bin/env python3
"""seed_eval.py <id> <worktree> <letter> <prop>[,<prop>...] [--unit-demo <src file>]
Confirms an independently produced property-breaking change and runs the checks against it:
  1. scratch copy of /repo + patch: builds, the pinned test suite passes;
  2. the demonstration fails with the patch and passes without it;
  3. bin/check <prop> on the patched copy (VERIF_REPO) for every listed property;
  4. stores /verif/seeded/<id>/{patch.diff, demo.rs, meta.json}."""
import json, os, re, shutil, subprocess, sys, time
V = os.path.dirname(os.path.dirname(os.path.abspath(__file__)))
sid, wt, letter, props = sys.argv[1], sys.argv[2], sys.argv[3], sys.argv[4].split(",")
unit_src = sys.argv[sys.argv.index("--unit-demo") + 1] if "--unit-demo" in sys.argv else None
patch = os.path.join(wt, "mutant_%s.diff" % letter)
demo = os.path.join(wt, "demo_%s.rs" % letter)
TGT = "/tmp/seed_target_%d" % os.getpid()
if not os.path.isdir("/tmp/seed_target"):
    # pre-built test binaries of the unchanged tree (only a cache: rebuilt when missing)
    _d = "/tmp/seed_build_%d" % os.getpid()
    subprocess.run([os.path.join(V, "tools/mutant.sh"), _d], check=True)
    subprocess.run(["cargo", "test", "--offline", "--no-run"], cwd=_d, env=dict(os.environ, CARGO_TARGET_DIR="/tmp/seed_target", CARGO_NET_OFFLINE="true"), capture_output=True)
    shutil.rmtree(_d, ignore_errors=True)
subprocess.run(["cp", "-r", "/tmp/seed_target", TGT], check=True)
env = dict(os.environ, CARGO_TARGET_DIR=TGT, CARGO_NET_OFFLINE="true", CARGO_TERM_COLOR="never")
def sh(cmd, cwd, **kw):
    return subprocess.run(cmd, cwd=cwd, env=env, capture_output=True, text=True, **kw)
def scratch(apply):
    d = "/tmp/seed_%s_%d" % (sid, os.getpid())
    subprocess.run([os.path.join(V, "tools/mutant.sh"), d], check=True)
    if apply:
        r = sh(["git", "apply", "--unsafe-paths", "--directory=" + d, patch], "/")
        if r.returncode != 0:
            r = sh(["patch", "-p1", "-i", patch], d)
            assert r.returncode == 0, "patch does not apply: " + r.stdout + r.stderr
    return d
def run_demo(d):
    if unit_src:
        p = os.path.join(d, unit_src)
        open(p, "a").write("\n" + open(demo).read())
        name = re.search(r"mod (\w+)", open(demo).read()).group(1)
        r = sh(["cargo", "test", "--offline", "--lib", name], d)
    else:
        shutil.copy(demo, os.path.join(d, "tests", "seeded_demo.rs"))
        r = sh(["cargo", "test", "--offline", "--test", "seeded_demo"], d)
    return r.returncode == 0, (r.stdout + r.stderr)[-1500:]
meta = {"id": sid, "breaks": props[0], "checked_properties": props, "source": "independent sub-agent working from the property text only (worktree %s, mutant %s)" % (wt, letter), "ran": []}
# 2a. demo passes on the unmodified tree
d0 = scratch(False)
ok0, out0 = run_demo(d0)
shutil.rmtree(d0)
meta["demo_passes_without_change"] = ok0
# 1 + 2b
d1 = scratch(True)
r = sh(["cargo", "test", "--offline"], d1)
passed = sum(int(x) for x in re.findall(r"test result: ok\. (\d+) passed", r.stdout))
failed = re.findall(r"test result: FAILED", r.stdout)
meta["suite_with_change"] = {"passed": passed, "failed_binaries": len(failed), "rc": r.returncode}
meta["ran"].append("cargo test --offline (patched scratch copy): %d passed, rc=%d" % (passed, r.returncode))
ok1, out1 = run_demo(d1)
meta["demo_fails_with_change"] = not ok1
meta["ran"].append("demonstration: passes without the change=%s, fails with it=%s" % (ok0, not ok1))
# restore demo-free patched tree for the checks
shutil.rmtree(d1)
d1 = scratch(True)
res = {}
for p in props:
    t0 = time.time()
    r = subprocess.run([os.path.join(V, "bin/check"), p], env=dict(os.environ, VERIF_REPO=d1), capture_output=True, text=True)
    viol = [l for l in r.stdout.split("\n") if l.startswith("VIOLATION") or l.strip().startswith("failed obligation")]
    res[p] = {"rc": r.returncode, "wall_s": round(time.time() - t0, 1), "report": viol[:8], "infra": [l[:300] for l in r.stdout.split("\n") if l.startswith("INFRA")][:3]}
    meta["ran"].append("VERIF_REPO=<patched copy> bin/check %s -> exit %d" % (p, r.returncode))
shutil.rmtree(d1)
meta["check_results"] = res
meta["detected"] = res[props[0]]["rc"] == 1
note = os.path.join(wt, "NOTE.md")
meta["needs_to_manifest"] = open(note).read()[:6000] if os.path.exists(note) else ""
out = os.path.join(V, "seeded", sid)
os.makedirs(out, exist_ok=True)
# keep the history: an earlier evaluation (before the framework was strengthened) stays on record
old = os.path.join(out, "meta.json")
if os.path.exists(old):
    try:
        o = json.load(open(old))
        meta["previous_runs"] = o.get("previous_runs", []) + [{"check_results": {k: {"rc": v["rc"], "report": v["report"][:2], "infra": [x[:300] for x in v["infra"][:1]]} for k, v in o.get("check_results", {}).items()}, "strengthened_after": os.environ.get("SEED_NOTE", "")}]
    except Exception:
        pass
shutil.copy(patch, os.path.join(out, "patch.diff"))
shutil.copy(demo, os.path.join(out, "demo.rs"))
json.dump(meta, open(os.path.join(out, "meta.json"), "w"), indent=1)
shutil.rmtree(TGT, ignore_errors=True)
print(sid, "suite", meta["suite_with_change"], "demo ok/without:", ok0, "fails/with:", not ok1, "checks:", {k: v["rc"] for k, v in res.items()})
