#!/usr/bin/env python3
"""Generates /verif/MANIFEST.json from contracts/registry.json (single source of truth for what is claimed)."""
import json, os
V = os.path.dirname(os.path.dirname(os.path.abspath(__file__)))
reg = json.load(open(os.path.join(V, "contracts/registry.json")))
props = [json.loads(l) for l in open(os.path.join(V, "properties.jsonl"))]
hooks = reg.get("hooks", {})
checks = []
na = []
for p in props:
    pid = p["id"]
    pr = reg["properties"].get(pid)
    if not pr or pr.get("not_applicable"):
        na.append({"property_id": pid, "reason": (pr or {}).get("not_applicable", "check not built yet (work in progress; see DESIGN.md build order)")})
        continue
    checks.append({
        "property_id": pid,
        "quick_cmd": "bin/check %s --tier quick" % pid,
        "thorough_cmd": "bin/check %s --tier thorough" % pid,
        "evidence_file": "/verif/evidence/%s.json" % pid,
        "replay_cmd_template": "bin/check %s --replay {path}" % pid,
        "engine": pr.get("engine", "verus+kani"),
        "level_claimed": {"category": pr["level"], "text": pr.get("level_text", ""), "design_ref": pr.get("design_ref", "DESIGN.md section 5 " + pid)},
        "level_note": pr.get("level_note", ""),
        "technique": pr.get("technique", "contract-based deductive verification (Verus/Z3 on verbatim function bodies)"),
    })
m = {
    "version": 1,
    "setup_cmd": "cd /verif/tools/extract && CARGO_NET_OFFLINE=true cargo build --release --offline",
    "hooks": {
        "guard": hooks.get("guard", "cfg(kani)"),
        "enable": hooks.get("enable", "set automatically by `cargo kani`; never set by cargo build/test"),
        "baseline_off_cmd": "cd /repo && cargo test --workspace --no-fail-fast --offline",
        "source_commits": hooks.get("source_commits", []),
        "add_only": True,
    },
    "engines": reg.get("engines", []),
    "checks": checks,
    "notes": reg.get("notes", ""),
    "not_applicable": na,
}
json.dump(m, open(os.path.join(V, "MANIFEST.json"), "w"), indent=1)
print("MANIFEST: %d checks, %d not_applicable" % (len(checks), len(na)))
