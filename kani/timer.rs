//! Kani harnesses for src/timer/timer.rs (glue L2 + wake events + deadline arithmetic).
//! GROUP: timer
//! MODULE: timer::timer::kani_verif
//! TAGS: C01 C15 C17 C18
//! N: quick=4 thorough=4
//! UNWIND_EXTRA: 3
//! KIND: harness (concrete registration pattern, symbolic deadlines and clock)
//! BOUNDED: 3 timer futures, deadlines and clock < 5 (deadline arithmetic: full u64 / Duration domain)
//! The transitions of `TimerState` are proved for any number of timers by Verus (unit `timer`) against the pairing-heap
//! contract; these harnesses decide the glue, that expired timers' wakers are really invoked (exactly once, in deadline
//! order) on the REAL pairing heap, the deadline arithmetic of delay(), and memory safety on these shapes.
use super::*;
#[path = "/verif/kani/kit.rs"]
mod kit;
use crate::intrusive_pairing_heap::kani_verif as hv;
use core::mem::ManuallyDrop;
use core::task::Context;

const NT: usize = 3;
static CLOCK: crate::timer::MockClock = crate::timer::MockClock::new();
type Svc = GenericTimerService<NoopLock>;
type Fut = LocalTimerFuture<'static>;

pub struct World {
    svc: Svc,
    futs: [ManuallyDrop<Fut>; NT],
    /// 0 Unregistered, 1 Registered (in the heap), 2 Expired (woken, not yet re-polled), 3 terminated
    st: [u8; NT],
    /// concrete: which timers are registered (so that the heap shape never depends on a symbolic value)
    reg: [bool; NT],
    exp: [u64; NT],
    now: u64,
}

/// st[i] == 9: any state outside the heap (0, 2 or 3), symbolic.  exp[i] == 9: any deadline < 5, symbolic; registered
/// timers get CONCRETE deadlines (the instance list enumerates every relative order), so the heap shape is concrete.
fn world(st_in: [u8; NT], exp_in: [u64; NT]) -> World {
    let now: u64 = kani::any();
    kani::assume(now < 5);
    CLOCK.set_time(now);
    let svc = Svc::new(&CLOCK);
    let sp: &'static Svc = unsafe { &*(&svc as *const Svc) };
    let mut exp = [0u64; NT];
    let mut st = st_in;
    let mut i = 0;
    while i < NT {
        if st_in[i] == 9 {
            let x: u8 = kani::any();
            kani::assume(x == 0 || x == 2 || x == 3);
            st[i] = x;
        }
        let e: u64 = if exp_in[i] == 9 { kani::any() } else { exp_in[i] };
        kani::assume(e < 5);
        // an Expired timer was due at some earlier reading of the (monotonic) clock
        kani::assume(st[i] != 2 || e <= now);
        exp[i] = e;
        i += 1;
    }
    World { futs: core::array::from_fn(|i| ManuallyDrop::new(LocalTimer::deadline(sp, exp[i]))), svc, st, reg: core::array::from_fn(|i| st_in[i] == 1), exp, now }
}

/// registration happens in index order through the REAL heap insert (every heap reachable with these keys by inserts)
unsafe fn link(w: &mut World) {
    let sp: &'static Svc = &*(&w.svc as *const Svc);
    let mut i = 0;
    while i < NT {
        let f = &mut *w.futs[i];
        f.timer = if w.st[i] == 3 { None } else { Some(sp) };
        f.wait_node.state = if w.reg[i] {
            PollState::Registered
        } else if w.st[i] == 0 {
            PollState::Unregistered
        } else {
            PollState::Expired
        };
        f.wait_node.task = if w.reg[i] { Some(kit::waker(i)) } else { None };
        i += 1;
    }
    let mut st = w.svc.inner.lock();
    let mut i = 0;
    while i < NT {
        if w.reg[i] {
            let n: *mut HeapNode<TimerQueueEntry> = &mut w.futs[i].wait_node;
            st.waiters.insert(&mut *n);
        }
        i += 1;
    }
}

fn nstate(w: &World, i: usize) -> u8 {
    match w.futs[i].wait_node.state {
        PollState::Unregistered => 0,
        PollState::Registered => 1,
        PollState::Expired => 2,
    }
}
fn member(w: &World, i: usize) -> bool {
    let st = w.svc.inner.lock();
    hv::reaches_root(&st.waiters, &w.futs[i].wait_node, NT)
}
/// the heap holds exactly the Registered timers; everybody else carries no links
fn heap_ok(w: &World) -> bool {
    let mut ok = true;
    let mut i = 0;
    while i < NT {
        let reg = nstate(w, i) == 1;
        if reg != member(w, i) {
            ok = false;
        }
        if !reg && !hv::node_unlinked(&w.futs[i].wait_node) {
            ok = false;
        }
        i += 1;
    }
    ok
}
/// is_terminated() is true exactly for the futures that completed -- also for futures nobody is polling right now
fn terminated_exact(w: &World, st: &[u8; NT], skip: usize) -> bool {
    let mut ok = true;
    let mut i = 0;
    while i < NT {
        if i != skip && w.futs[i].is_terminated() != (st[i] == 3) {
            ok = false;
        }
        i += 1;
    }
    ok
}
fn min_registered(w: &World) -> Option<u64> {
    let mut m: Option<u64> = None;
    let mut i = 0;
    while i < NT {
        if nstate(w, i) == 1 {
            m = Some(match m {
                None => w.exp[i],
                Some(x) => if w.exp[i] < x { w.exp[i] } else { x },
            });
        }
        i += 1;
    }
    m
}

fn check_poll(st: [u8; NT], exp: [u64; NT]) {
    let i = 0;
    let mut w = world(st, exp);
    let st = w.st;
    unsafe { link(&mut w) };
    assert!(heap_ok(&w));
    assert!(terminated_exact(&w, &st, NT), "[C17] is_terminated() is false for every future that has not completed (also one already expired but not yet polled)");
    kani::assume(st[i] != 3);
    let wk = kit::waker(NT + kit::any_lt(2));
    let mut cx = Context::from_waker(&wk);
    kit::arm();
    let r = unsafe { core::pin::Pin::new_unchecked(&mut *w.futs[i]) }.poll(&mut cx);
    let term = w.futs[i].is_terminated();
    kit::disarm();
    assert!(r.is_ready() == term, "[C17] is_terminated() must be true exactly after Ready");
    assert!(heap_ok(&w), "[C01] the timer heap must contain exactly the live registered futures");
    match st[i] {
        0 => assert!(r.is_ready() == (w.now >= w.exp[i]), "[C15] a timer completes at its first poll iff the clock has reached its deadline (never early)"),
        1 => assert!(r.is_pending(), "[C15] a registered timer completes only after check_expirations() saw it due"),
        _ => assert!(r.is_ready(), "[C15] a timer expired by check_expirations() completes"),
    }
    if r.is_pending() {
        let t = w.futs[i].wait_node.task.as_ref();
        assert!(t.is_some() && t.unwrap().will_wake(&wk), "[C15] a pending timer is registered with the waker of its latest poll");
    }
    assert!(kit::total_wakes() == 0, "[C15] polling wakes nobody");
    assert!(w.svc.next_expiration() == min_registered(&w), "[C15] next_expiration() is the smallest deadline among the registered timers");
}

fn check_drop(st: [u8; NT], exp: [u64; NT]) {
    let i = 0;
    let mut w = world(st, exp);
    let st = w.st;
    unsafe { link(&mut w) };
    kit::arm();
    unsafe { ManuallyDrop::drop(&mut w.futs[i]) };
    kit::disarm();
    assert!(!member(&w, i) && hv::node_unlinked(&w.futs[i].wait_node), "[C01] a dropped timer future is no longer in the heap");
    let mut j = 1;
    while j < NT {
        assert!(member(&w, j) == (st[j] == 1), "[C15] dropping one timer does not disturb the others");
        j += 1;
    }
    assert!(kit::total_wakes() == 0, "[C15] cancelling wakes nobody");
    assert!(w.svc.next_expiration() == min_registered(&w), "[C15] a dropped timer no longer counts for next_expiration()");
}

fn check_expirations(st: [u8; NT], exp: [u64; NT]) {
    let mut w = world(st, exp);
    let st = w.st;
    unsafe { link(&mut w) };
    assert!(w.svc.next_expiration() == min_registered(&w), "[C15] next_expiration() is the smallest deadline among the registered timers");
    kit::arm();
    w.svc.check_expirations();
    kit::disarm();
    let mut due = 0;
    let mut i = 0;
    while i < NT {
        let is_due = st[i] == 1 && w.exp[i] <= w.now;
        if is_due {
            due += 1;
            assert!(kit::wakes(i) == 1, "[C15] every due timer is woken exactly once through its latest waker");
            assert!(nstate(&w, i) == 2, "[C15] a due timer is marked expired");
        } else {
            assert!(kit::wakes(i) == 0, "[C15] only due timers are woken");
            assert!(nstate(&w, i) == st[i].min(2), "[C15] timers that are not due are untouched");
        }
        i += 1;
    }
    assert!(kit::log_len() == due, "[C15] all and only the due timers are woken");
    let mut k = 1;
    while k < NT {
        if k < due {
            assert!(w.exp[kit::log(k - 1)] <= w.exp[kit::log(k)], "[C15] due timers are woken in non-decreasing deadline order");
        }
        k += 1;
    }
    assert!(heap_ok(&w), "[C01] heap consistent after check_expirations()");
    assert!(terminated_exact(&w, &st, NT), "[C17] check_expirations() terminates no future: an expired timer is not terminated until its poll returned Ready");
    assert!(w.svc.next_expiration() == min_registered(&w), "[C15] next_expiration() afterwards is the smallest remaining deadline");
}

/// loop-free, full domain: a complete proof of the deadline arithmetic
#[kani::proof]
fn delay_is_deadline_now_plus_d_saturating() {
    let now: u64 = kani::any();
    kani::assume(now <= usize::MAX as u64);
    CLOCK.set_time(now);
    let svc = Svc::new(&CLOCK);
    let secs: u64 = kani::any();
    let nanos: u32 = kani::any();
    kani::assume(nanos < 1_000_000_000);
    let d = core::time::Duration::new(secs, nanos);
    let ms: u128 = (secs as u128) * 1000 + (nanos / 1_000_000) as u128;
    let ms64: u64 = if ms > u64::MAX as u128 { u64::MAX } else { ms as u64 };
    let expect = match now.checked_add(ms64) {
        Some(x) => x,
        None => u64::MAX,
    };
    assert!(svc.deadline_from_now(d) == expect, "[C15] delay(d) means deadline(now + d), saturating");
    let f = LocalTimer::delay(&svc, d);
    assert!(f.wait_node.expiry == expect && !f.is_terminated(), "[C15] [C17] delay() creates a live timer with that deadline");
    core::mem::forget(f);
}

#[kani::proof]
fn fresh_timer_future_is_unregistered() {
    let svc = Svc::new(&CLOCK);
    let ts: u64 = kani::any();
    let f = LocalTimer::deadline(&svc, ts);
    assert!(!f.is_terminated(), "[C17] is_terminated() is false from creation");
    assert!(f.wait_node.state == PollState::Unregistered && f.wait_node.task.is_none() && f.wait_node.expiry == ts, "[C15] a new timer future has exactly the requested deadline and is not registered (so it does not count for next_expiration())");
    assert!(svc.next_expiration().is_none(), "[C15] next_expiration() is None while nothing is registered");
    core::mem::forget(f);
}

#[kani::proof]
#[kani::should_panic]
fn poll_after_completion_panics() {
    let mut w = world([3, 0, 0], [9, 9, 9]);
    unsafe { link(&mut w) };
    let wk = kit::waker(NT);
    let mut cx = Context::from_waker(&wk);
    let _ = unsafe { core::pin::Pin::new_unchecked(&mut *w.futs[0]) }.poll(&mut cx);
}

macro_rules! inst {
    ($name:ident, $check:ident ( $($arg:expr),* )) => {
        #[kani::proof]
        #[kani::stub(alloc::alloc::alloc, kit::no_alloc)]
        #[kani::stub(alloc::alloc::dealloc, kit::no_dealloc)]
        fn $name() {
            $check($($arg),*);
        }
    };
}
inst!(poll_s099_e999, check_poll([0, 9, 9], [9, 9, 9]));
inst!(poll_s091_e991, check_poll([0, 9, 1], [9, 9, 1]));
inst!(poll_s019_e919, check_poll([0, 1, 9], [9, 1, 9]));
inst!(poll_s011_e911, check_poll([0, 1, 1], [9, 1, 1]));
inst!(poll_s011_e912, check_poll([0, 1, 1], [9, 1, 2]));
inst!(poll_s011_e921, check_poll([0, 1, 1], [9, 2, 1]));
inst!(poll_s199_e199, check_poll([1, 9, 9], [1, 9, 9]));
inst!(poll_s191_e191, check_poll([1, 9, 1], [1, 9, 1]));
inst!(poll_s191_e192, check_poll([1, 9, 1], [1, 9, 2]));
inst!(poll_s191_e291, check_poll([1, 9, 1], [2, 9, 1]));
inst!(poll_s119_e119, check_poll([1, 1, 9], [1, 1, 9]));
inst!(poll_s119_e129, check_poll([1, 1, 9], [1, 2, 9]));
inst!(poll_s119_e219, check_poll([1, 1, 9], [2, 1, 9]));
inst!(poll_s111_e111, check_poll([1, 1, 1], [1, 1, 1]));
inst!(poll_s111_e112, check_poll([1, 1, 1], [1, 1, 2]));
inst!(poll_s111_e121, check_poll([1, 1, 1], [1, 2, 1]));
inst!(poll_s111_e122, check_poll([1, 1, 1], [1, 2, 2]));
inst!(poll_s111_e123, check_poll([1, 1, 1], [1, 2, 3]));
inst!(poll_s111_e132, check_poll([1, 1, 1], [1, 3, 2]));
inst!(poll_s111_e211, check_poll([1, 1, 1], [2, 1, 1]));
inst!(poll_s111_e212, check_poll([1, 1, 1], [2, 1, 2]));
inst!(poll_s111_e213, check_poll([1, 1, 1], [2, 1, 3]));
inst!(poll_s111_e221, check_poll([1, 1, 1], [2, 2, 1]));
inst!(poll_s111_e231, check_poll([1, 1, 1], [2, 3, 1]));
inst!(poll_s111_e312, check_poll([1, 1, 1], [3, 1, 2]));
inst!(poll_s111_e321, check_poll([1, 1, 1], [3, 2, 1]));
inst!(poll_s299_e999, check_poll([2, 9, 9], [9, 9, 9]));
inst!(poll_s291_e991, check_poll([2, 9, 1], [9, 9, 1]));
inst!(poll_s219_e919, check_poll([2, 1, 9], [9, 1, 9]));
inst!(poll_s211_e911, check_poll([2, 1, 1], [9, 1, 1]));
inst!(poll_s211_e912, check_poll([2, 1, 1], [9, 1, 2]));
inst!(poll_s211_e921, check_poll([2, 1, 1], [9, 2, 1]));
inst!(drop_s099_e999, check_drop([0, 9, 9], [9, 9, 9]));
inst!(drop_s091_e991, check_drop([0, 9, 1], [9, 9, 1]));
inst!(drop_s019_e919, check_drop([0, 1, 9], [9, 1, 9]));
inst!(drop_s011_e911, check_drop([0, 1, 1], [9, 1, 1]));
inst!(drop_s011_e912, check_drop([0, 1, 1], [9, 1, 2]));
inst!(drop_s011_e921, check_drop([0, 1, 1], [9, 2, 1]));
inst!(drop_s199_e199, check_drop([1, 9, 9], [1, 9, 9]));
inst!(drop_s191_e191, check_drop([1, 9, 1], [1, 9, 1]));
inst!(drop_s191_e192, check_drop([1, 9, 1], [1, 9, 2]));
inst!(drop_s191_e291, check_drop([1, 9, 1], [2, 9, 1]));
inst!(drop_s119_e119, check_drop([1, 1, 9], [1, 1, 9]));
inst!(drop_s119_e129, check_drop([1, 1, 9], [1, 2, 9]));
inst!(drop_s119_e219, check_drop([1, 1, 9], [2, 1, 9]));
inst!(drop_s111_e111, check_drop([1, 1, 1], [1, 1, 1]));
inst!(drop_s111_e112, check_drop([1, 1, 1], [1, 1, 2]));
inst!(drop_s111_e121, check_drop([1, 1, 1], [1, 2, 1]));
inst!(drop_s111_e122, check_drop([1, 1, 1], [1, 2, 2]));
inst!(drop_s111_e123, check_drop([1, 1, 1], [1, 2, 3]));
inst!(drop_s111_e132, check_drop([1, 1, 1], [1, 3, 2]));
inst!(drop_s111_e211, check_drop([1, 1, 1], [2, 1, 1]));
inst!(drop_s111_e212, check_drop([1, 1, 1], [2, 1, 2]));
inst!(drop_s111_e213, check_drop([1, 1, 1], [2, 1, 3]));
inst!(drop_s111_e221, check_drop([1, 1, 1], [2, 2, 1]));
inst!(drop_s111_e231, check_drop([1, 1, 1], [2, 3, 1]));
inst!(drop_s111_e312, check_drop([1, 1, 1], [3, 1, 2]));
inst!(drop_s111_e321, check_drop([1, 1, 1], [3, 2, 1]));
inst!(drop_s299_e999, check_drop([2, 9, 9], [9, 9, 9]));
inst!(drop_s291_e991, check_drop([2, 9, 1], [9, 9, 1]));
inst!(drop_s219_e919, check_drop([2, 1, 9], [9, 1, 9]));
inst!(drop_s211_e911, check_drop([2, 1, 1], [9, 1, 1]));
inst!(drop_s211_e912, check_drop([2, 1, 1], [9, 1, 2]));
inst!(drop_s211_e921, check_drop([2, 1, 1], [9, 2, 1]));
inst!(drop_s399_e999, check_drop([3, 9, 9], [9, 9, 9]));
inst!(drop_s391_e991, check_drop([3, 9, 1], [9, 9, 1]));
inst!(drop_s319_e919, check_drop([3, 1, 9], [9, 1, 9]));
inst!(drop_s311_e911, check_drop([3, 1, 1], [9, 1, 1]));
inst!(drop_s311_e912, check_drop([3, 1, 1], [9, 1, 2]));
inst!(drop_s311_e921, check_drop([3, 1, 1], [9, 2, 1]));
inst!(expire_s991_e991, check_expirations([9, 9, 1], [9, 9, 1]));
inst!(expire_s919_e919, check_expirations([9, 1, 9], [9, 1, 9]));
inst!(expire_s911_e911, check_expirations([9, 1, 1], [9, 1, 1]));
inst!(expire_s911_e912, check_expirations([9, 1, 1], [9, 1, 2]));
inst!(expire_s911_e921, check_expirations([9, 1, 1], [9, 2, 1]));
inst!(expire_s199_e199, check_expirations([1, 9, 9], [1, 9, 9]));
inst!(expire_s191_e191, check_expirations([1, 9, 1], [1, 9, 1]));
inst!(expire_s191_e192, check_expirations([1, 9, 1], [1, 9, 2]));
inst!(expire_s191_e291, check_expirations([1, 9, 1], [2, 9, 1]));
inst!(expire_s119_e119, check_expirations([1, 1, 9], [1, 1, 9]));
inst!(expire_s119_e129, check_expirations([1, 1, 9], [1, 2, 9]));
inst!(expire_s119_e219, check_expirations([1, 1, 9], [2, 1, 9]));
inst!(expire_s111_e111, check_expirations([1, 1, 1], [1, 1, 1]));
inst!(expire_s111_e112, check_expirations([1, 1, 1], [1, 1, 2]));
inst!(expire_s111_e121, check_expirations([1, 1, 1], [1, 2, 1]));
inst!(expire_s111_e122, check_expirations([1, 1, 1], [1, 2, 2]));
inst!(expire_s111_e123, check_expirations([1, 1, 1], [1, 2, 3]));
inst!(expire_s111_e132, check_expirations([1, 1, 1], [1, 3, 2]));
inst!(expire_s111_e211, check_expirations([1, 1, 1], [2, 1, 1]));
inst!(expire_s111_e212, check_expirations([1, 1, 1], [2, 1, 2]));
inst!(expire_s111_e213, check_expirations([1, 1, 1], [2, 1, 3]));
inst!(expire_s111_e221, check_expirations([1, 1, 1], [2, 2, 1]));
inst!(expire_s111_e231, check_expirations([1, 1, 1], [2, 3, 1]));
inst!(expire_s111_e312, check_expirations([1, 1, 1], [3, 1, 2]));
inst!(expire_s111_e321, check_expirations([1, 1, 1], [3, 2, 1]));
