//! Kani side of the intrusive pairing heap (DESIGN.md 5 C20 / C15, ledger A1).
//! Bounded harnesses (NOT function contracts: `remove` may write every node of the heap, which a `modifies` clause
//! over the function's arguments cannot name): from EVERY well-formed heap of at most N nodes (every ordered-tree
//! shape, symbolic keys incl. duplicates) and every choice of argument node, `insert` / `peek_min` / `remove`
//! re-establish well-formedness, change membership by exactly the argument, expose a minimum, and leave a removed
//! node without links.  Compiled only under cfg(kani) as a child module of the heap module.
//! GROUP: heap
//! MODULE: intrusive_pairing_heap::kani_verif
//! TAGS: C20 C15
//! N: quick=3 thorough=4
//! UNWIND_EXTRA: 7
//! KIND: harness (concrete shape, symbolic keys)
//! BOUNDED: this heap shape; all key values
use super::*;

/// largest heap explored
pub const N: usize = 4;
/// arena slots (the symbolic-key harnesses use at most N + 1 of them; the wide, concrete-key ones up to 8)
pub const M: usize = 8;

pub struct Arena {
    pub nodes: [HeapNode<u8>; M],
    /// number of slots a harness uses (concrete): members 0..k plus one spare node
    pub m: usize,
}

pub fn arena(m: usize) -> Arena {
    Arena { nodes: core::array::from_fn(|_| HeapNode::new(kani::any())), m }
}

fn idx(a: &Arena, p: Option<NonNull<HeapNode<u8>>>) -> usize {
    // index of the arena slot a pointer refers to; M for None; M+1 for a pointer outside the arena
    // (pointer equality against every slot: no pointer arithmetic in the model)
    match p {
        None => M,
        Some(p) => {
            let q = p.as_ptr() as *const HeapNode<u8>;
            let mut r = M + 1;
            let mut i = 0;
            while i < a.m {
                if core::ptr::eq(q, &a.nodes[i] as *const HeapNode<u8>) {
                    r = i;
                }
                i += 1;
            }
            r
        }
    }
}

fn ptr(a: &mut Arena, i: usize) -> NonNull<HeapNode<u8>> {
    unsafe { NonNull::new_unchecked(a.nodes.as_mut_ptr().add(i)) }
}

pub fn unlinked(n: &HeapNode<u8>) -> bool {
    n.parent.is_none() && n.prev.is_none() && n.next.is_none() && n.first_child.is_none()
}

/// member(i): following parent pointers from i reaches the heap's root within M steps
pub fn member(a: &Arena, h: &PairingHeap<u8>, i: usize) -> bool {
    let r = idx(a, h.root);
    if r >= M {
        return false;
    }
    let mut cur = i;
    let mut s = 0;
    while s < a.m {
        if cur == r {
            return a.nodes[cur].parent.is_none();
        }
        let p = idx(a, a.nodes[cur].parent);
        if p >= M {
            return false;
        }
        cur = p;
        s += 1;
    }
    false
}

pub fn members(a: &Arena, h: &PairingHeap<u8>) -> [bool; M] {
    let mut m = [false; M];
    let mut i = 0;
    while i < a.m {
        m[i] = member(a, h, i);
        i += 1;
    }
    m
}

/// all links mutually consistent + heap order + non-members carry no links and are not referenced
pub fn wf(a: &Arena, h: &PairingHeap<u8>) -> bool {
    let m = members(a, h);
    let r = idx(a, h.root);
    if r == M + 1 {
        return false;
    }
    if r < M {
        let root = &a.nodes[r];
        if root.parent.is_some() || root.prev.is_some() || root.next.is_some() {
            return false;
        }
    }
    let mut i = 0;
    while i < a.m {
        let n = &a.nodes[i];
        let (p, pv, nx, fc) = (idx(a, n.parent), idx(a, n.prev), idx(a, n.next), idx(a, n.first_child));
        if p == M + 1 || pv == M + 1 || nx == M + 1 || fc == M + 1 {
            return false;
        }
        if !m[i] {
            if !unlinked(n) {
                return false;
            }
        } else {
            if i != r {
                // has a parent, which is a member, with key <= own key
                if p >= M || !m[p] || a.nodes[p].data > n.data {
                    return false;
                }
                // position in the parent's child list
                if pv == M {
                    if idx(a, a.nodes[p].first_child) != i {
                        return false;
                    }
                } else {
                    if idx(a, a.nodes[pv].next) != i || idx(a, a.nodes[pv].parent) != p || pv == i {
                        return false;
                    }
                    if idx(a, a.nodes[p].first_child) == i {
                        return false;
                    }
                }
                if nx != M && (idx(a, a.nodes[nx].prev) != i || idx(a, a.nodes[nx].parent) != p || nx == i) {
                    return false;
                }
            }
            if fc != M && (idx(a, a.nodes[fc].parent) != i || a.nodes[fc].prev.is_some() || fc == i) {
                return false;
            }
        }
        i += 1;
    }
    true
}

/// the root's key is a minimum of all member keys
pub fn root_is_min(a: &Arena, h: &PairingHeap<u8>) -> bool {
    let m = members(a, h);
    let r = idx(a, h.root);
    let mut i = 0;
    let mut ok = true;
    while i < a.m {
        if m[i] && (r >= M || a.nodes[r].data > a.nodes[i].data) {
            ok = false;
        }
        i += 1;
    }
    ok
}

fn count(a: &Arena, m: &[bool; M]) -> usize {
    let mut c = 0;
    let mut i = 0;
    while i < a.m {
        if m[i] {
            c += 1;
        }
        i += 1;
    }
    c
}

/// Builds the well-formed heap over slots 0..k (k <= N) described by a CONCRETE parent vector: slot 0 is the root;
/// slot i >= 1 has parent `parents[i] < i` and is prepended to that parent's child list.  Every ordered tree has a
/// labelling of this kind, so enumerating all parent vectors enumerates every shape with k nodes.  Keys are symbolic
/// (any u8 values that respect the heap order, duplicates included).
pub unsafe fn build(a: &mut Arena, k: usize, parents: &[usize]) -> PairingHeap<u8> {
    let mut h = PairingHeap::<u8> { root: None };
    if k > 0 {
        h.root = Some(ptr(a, 0));
    }
    let mut i = 1;
    while i < k {
        let p = parents[i];
        assert!(p < i);
        kani::assume(a.nodes[p].data <= a.nodes[i].data);
        let me = ptr(a, i);
        let pp = ptr(a, p);
        let old = a.nodes[p].first_child;
        a.nodes[i].next = old;
        if let Some(mut o) = old {
            o.as_mut().prev = Some(me);
        }
        a.nodes[p].first_child = Some(me);
        a.nodes[i].parent = Some(pp);
        i += 1;
    }
    h
}

fn check_build(k: usize, parents: &[usize]) {
    let mut a = arena(k + 1);
    let h = unsafe { build(&mut a, k, parents) };
    assert!(wf(&a, &h));
    assert!(count(&a, &members(&a, &h)) == k);
    assert!(root_is_min(&a, &h));
    let r = h.peek_min();
    assert!(r.is_none() == (k == 0));
    if let Some(p) = r {
        let i = idx(&a, Some(p));
        assert!(i < a.m && members(&a, &h)[i]);
    }
}

/// insert the spare node (slot k) into the heap over slots 0..k
fn check_insert(k: usize, parents: &[usize]) {
    let mut a = arena(k + 1);
    let mut h = unsafe { build(&mut a, k, parents) };
    let m0 = members(&a, &h);
    let j = k;
    let node: *mut HeapNode<u8> = unsafe { a.nodes.as_mut_ptr().add(j) };
    unsafe {
        h.insert(&mut *node);
    }
    assert!(wf(&a, &h));
    let m1 = members(&a, &h);
    let mut i = 0;
    while i < a.m {
        assert!(m1[i] == (m0[i] || i == j));
        i += 1;
    }
    assert!(root_is_min(&a, &h));
}

/// remove member j (concrete) and re-insert it with any new key
fn check_remove(k: usize, parents: &[usize], j: usize) {
    let mut a = arena(k + 1);
    let mut h = unsafe { build(&mut a, k, parents) };
    let m0 = members(&a, &h);
    let keys0: [u8; M] = core::array::from_fn(|i| a.nodes[i].data);
    assert!(j < k && m0[j]); // documented precondition: the node is a member of this heap
    let node: *mut HeapNode<u8> = unsafe { a.nodes.as_mut_ptr().add(j) };
    unsafe {
        h.remove(&mut *node);
    }
    assert!(wf(&a, &h));
    assert!(unlinked(&a.nodes[j])); // removed nodes carry no links
    let m1 = members(&a, &h);
    let mut i = 0;
    while i < a.m {
        assert!(m1[i] == (m0[i] && i != j));
        assert!(a.nodes[i].data == keys0[i]);
        i += 1;
    }
    assert!(root_is_min(&a, &h));
    unsafe {
        (*node).data = kani::any();
        h.insert(&mut *node);
    }
    assert!(wf(&a, &h));
    let m2 = members(&a, &h);
    let mut i = 0;
    while i < a.m {
        assert!(m2[i] == m0[i]);
        i += 1;
    }
    assert!(root_is_min(&a, &h));
}


/// contract row `HeapNode::new` of prelude/heap.vrs: the node wraps exactly `data` and carries no links
#[kani::proof]
fn node_new_wraps_data_unlinked() {
    let x: u64 = kani::any();
    let mut n = HeapNode::new(x);
    assert!(node_unlinked(&n), "[C20] a new heap node is unlinked");
    assert!(*n == x, "[C20] a new heap node wraps exactly its data");
    let y: u64 = kani::any();
    *n = y;
    assert!(*n == y && node_unlinked(&n), "[C20] writing through the node changes its data only");
}

#[kani::proof]
fn build_k0_x() {
    check_build(0, &[0]);
}
#[kani::proof]
fn insert_k0_x() {
    check_insert(0, &[0]);
}
#[kani::proof]
fn build_k1_x() {
    check_build(1, &[0]);
}
#[kani::proof]
fn insert_k1_x() {
    check_insert(1, &[0]);
}
#[kani::proof]
fn remove_k1_x_j0() {
    check_remove(1, &[0], 0);
}
#[kani::proof]
fn build_k2_0() {
    check_build(2, &[0, 0]);
}
#[kani::proof]
fn insert_k2_0() {
    check_insert(2, &[0, 0]);
}
#[kani::proof]
fn remove_k2_0_j0() {
    check_remove(2, &[0, 0], 0);
}
#[kani::proof]
fn remove_k2_0_j1() {
    check_remove(2, &[0, 0], 1);
}
#[kani::proof]
fn build_k3_00() {
    check_build(3, &[0, 0, 0]);
}
// TIER: thorough
#[kani::proof]
fn insert_k3_00() {
    check_insert(3, &[0, 0, 0]);
}
#[kani::proof]
fn remove_k3_00_j0() {
    check_remove(3, &[0, 0, 0], 0);
}
#[kani::proof]
fn remove_k3_00_j1() {
    check_remove(3, &[0, 0, 0], 1);
}
#[kani::proof]
fn remove_k3_00_j2() {
    check_remove(3, &[0, 0, 0], 2);
}
#[kani::proof]
fn build_k3_01() {
    check_build(3, &[0, 0, 1]);
}
// TIER: thorough
#[kani::proof]
fn insert_k3_01() {
    check_insert(3, &[0, 0, 1]);
}
#[kani::proof]
fn remove_k3_01_j0() {
    check_remove(3, &[0, 0, 1], 0);
}
#[kani::proof]
fn remove_k3_01_j1() {
    check_remove(3, &[0, 0, 1], 1);
}
#[kani::proof]
fn remove_k3_01_j2() {
    check_remove(3, &[0, 0, 1], 2);
}
// TIER: thorough
#[kani::proof]
fn build_k4_000() {
    check_build(4, &[0, 0, 0, 0]);
}
// TIER: thorough
#[kani::proof]
fn remove_k4_000_j0() {
    check_remove(4, &[0, 0, 0, 0], 0);
}
// TIER: thorough
#[kani::proof]
fn remove_k4_000_j1() {
    check_remove(4, &[0, 0, 0, 0], 1);
}
// TIER: thorough
#[kani::proof]
fn remove_k4_000_j2() {
    check_remove(4, &[0, 0, 0, 0], 2);
}
// TIER: thorough
#[kani::proof]
fn remove_k4_000_j3() {
    check_remove(4, &[0, 0, 0, 0], 3);
}
// TIER: thorough
#[kani::proof]
fn build_k4_001() {
    check_build(4, &[0, 0, 0, 1]);
}
// TIER: thorough
#[kani::proof]
fn remove_k4_001_j0() {
    check_remove(4, &[0, 0, 0, 1], 0);
}
// TIER: thorough
#[kani::proof]
fn remove_k4_001_j1() {
    check_remove(4, &[0, 0, 0, 1], 1);
}
// TIER: thorough
#[kani::proof]
fn remove_k4_001_j2() {
    check_remove(4, &[0, 0, 0, 1], 2);
}
// TIER: thorough
#[kani::proof]
fn remove_k4_001_j3() {
    check_remove(4, &[0, 0, 0, 1], 3);
}
// TIER: thorough
#[kani::proof]
fn build_k4_002() {
    check_build(4, &[0, 0, 0, 2]);
}
// TIER: thorough
#[kani::proof]
fn remove_k4_002_j0() {
    check_remove(4, &[0, 0, 0, 2], 0);
}
// TIER: thorough
#[kani::proof]
fn remove_k4_002_j1() {
    check_remove(4, &[0, 0, 0, 2], 1);
}
// TIER: thorough
#[kani::proof]
fn remove_k4_002_j2() {
    check_remove(4, &[0, 0, 0, 2], 2);
}
// TIER: thorough
#[kani::proof]
fn remove_k4_002_j3() {
    check_remove(4, &[0, 0, 0, 2], 3);
}
// TIER: thorough
#[kani::proof]
fn build_k4_010() {
    check_build(4, &[0, 0, 1, 0]);
}
// TIER: thorough
#[kani::proof]
fn remove_k4_010_j0() {
    check_remove(4, &[0, 0, 1, 0], 0);
}
// TIER: thorough
#[kani::proof]
fn remove_k4_010_j1() {
    check_remove(4, &[0, 0, 1, 0], 1);
}
// TIER: thorough
#[kani::proof]
fn remove_k4_010_j2() {
    check_remove(4, &[0, 0, 1, 0], 2);
}
// TIER: thorough
#[kani::proof]
fn remove_k4_010_j3() {
    check_remove(4, &[0, 0, 1, 0], 3);
}
// TIER: thorough
#[kani::proof]
fn build_k4_011() {
    check_build(4, &[0, 0, 1, 1]);
}
// TIER: thorough
#[kani::proof]
fn remove_k4_011_j0() {
    check_remove(4, &[0, 0, 1, 1], 0);
}
// TIER: thorough
#[kani::proof]
fn remove_k4_011_j1() {
    check_remove(4, &[0, 0, 1, 1], 1);
}
// TIER: thorough
#[kani::proof]
fn remove_k4_011_j2() {
    check_remove(4, &[0, 0, 1, 1], 2);
}
// TIER: thorough
#[kani::proof]
fn remove_k4_011_j3() {
    check_remove(4, &[0, 0, 1, 1], 3);
}
// TIER: thorough
#[kani::proof]
fn build_k4_012() {
    check_build(4, &[0, 0, 1, 2]);
}
// TIER: thorough
#[kani::proof]
fn remove_k4_012_j0() {
    check_remove(4, &[0, 0, 1, 2], 0);
}
// TIER: thorough
#[kani::proof]
fn remove_k4_012_j1() {
    check_remove(4, &[0, 0, 1, 2], 1);
}
// TIER: thorough
#[kani::proof]
fn remove_k4_012_j2() {
    check_remove(4, &[0, 0, 1, 2], 2);
}
// TIER: thorough
#[kani::proof]
fn remove_k4_012_j3() {
    check_remove(4, &[0, 0, 1, 2], 3);
}

// ---------------- wide shapes with CONCRETE keys (loops of merge_children beyond 2 iterations) ----------------
/// `merge_children` pairs the children right-to-left and folds the pairs into an accumulator: its steady state is only
/// reached when a node with >= 5 children is removed, i.e. with >= 6 nodes -- beyond what is tractable with symbolic
/// keys.  These harnesses remove the node that owns c = 5 / 6 children (as the root, or below the root) with concrete
/// key patterns (ascending, descending, all equal, zig-zag, zag-zig relative to insertion order); fully concrete, so
/// CBMC acts as an interpreter with all pointer checks on.  Bounded AND sampled in the keys: stated in the evidence.
fn check_wide(k: usize, parents: &[usize], j: usize, keys: &[u8]) {
    let mut a = arena(k + 1);
    let mut i = 0;
    while i < k {
        a.nodes[i].data = keys[i];
        i += 1;
    }
    let mut h = unsafe { build(&mut a, k, parents) };
    assert!(wf(&a, &h));
    let m0 = members(&a, &h);
    assert!(count(&a, &m0) == k);
    let node: *mut HeapNode<u8> = unsafe { a.nodes.as_mut_ptr().add(j) };
    unsafe {
        h.remove(&mut *node);
    }
    assert!(wf(&a, &h));
    assert!(unlinked(&a.nodes[j]));
    let m1 = members(&a, &h);
    let mut i = 0;
    while i < a.m {
        assert!(m1[i] == (m0[i] && i != j)); // nobody else falls out of the heap
        i += 1;
    }
    assert!(root_is_min(&a, &h));
    unsafe {
        h.insert(&mut *node);
    }
    assert!(wf(&a, &h));
    assert!(count(&a, &members(&a, &h)) == k);
    assert!(root_is_min(&a, &h));
    // drain by repeatedly removing the minimum: every member comes out exactly once, in non-decreasing key order
    let mut last = 0u8;
    let mut n = 0;
    while n < k {
        let r = h.peek_min();
        assert!(r.is_some());
        let ri = idx(&a, r);
        assert!(ri < a.m && a.nodes[ri].data >= last);
        last = a.nodes[ri].data;
        let rp: *mut HeapNode<u8> = unsafe { a.nodes.as_mut_ptr().add(ri) };
        unsafe {
            h.remove(&mut *rp);
        }
        n += 1;
    }
    assert!(h.peek_min().is_none());
}

#[kani::proof]
fn wide_root_c5_asc() {
    check_wide(6, &[0, 0, 0, 0, 0, 0], 0, &[1, 10, 11, 12, 13, 14]);
}
#[kani::proof]
fn wide_inner_c5_asc() {
    check_wide(7, &[0, 0, 1, 1, 1, 1, 1], 1, &[1, 2, 10, 11, 12, 13, 14]);
}
#[kani::proof]
fn wide_root_c5_desc() {
    check_wide(6, &[0, 0, 0, 0, 0, 0], 0, &[1, 15, 14, 13, 12, 11]);
}
// TIER: thorough
#[kani::proof]
fn wide_inner_c5_desc() {
    check_wide(7, &[0, 0, 1, 1, 1, 1, 1], 1, &[1, 2, 15, 14, 13, 12, 11]);
}
#[kani::proof]
fn wide_root_c5_eq() {
    check_wide(6, &[0, 0, 0, 0, 0, 0], 0, &[1, 10, 10, 10, 10, 10]);
}
#[kani::proof]
fn wide_inner_c5_eq() {
    check_wide(7, &[0, 0, 1, 1, 1, 1, 1], 1, &[1, 2, 10, 10, 10, 10, 10]);
}
// TIER: thorough
#[kani::proof]
fn wide_root_c5_zig() {
    check_wide(6, &[0, 0, 0, 0, 0, 0], 0, &[1, 10, 16, 12, 18, 14]);
}
// TIER: thorough
#[kani::proof]
fn wide_inner_c5_zig() {
    check_wide(7, &[0, 0, 1, 1, 1, 1, 1], 1, &[1, 2, 10, 16, 12, 18, 14]);
}
// TIER: thorough
#[kani::proof]
fn wide_root_c5_zag() {
    check_wide(6, &[0, 0, 0, 0, 0, 0], 0, &[1, 15, 11, 17, 13, 19]);
}
// TIER: thorough
#[kani::proof]
fn wide_inner_c5_zag() {
    check_wide(7, &[0, 0, 1, 1, 1, 1, 1], 1, &[1, 2, 15, 11, 17, 13, 19]);
}
// TIER: thorough
#[kani::proof]
fn wide_root_c6_asc() {
    check_wide(7, &[0, 0, 0, 0, 0, 0, 0], 0, &[1, 10, 11, 12, 13, 14, 15]);
}
// TIER: thorough
#[kani::proof]
fn wide_root_c6_desc() {
    check_wide(7, &[0, 0, 0, 0, 0, 0, 0], 0, &[1, 16, 15, 14, 13, 12, 11]);
}
// TIER: thorough
#[kani::proof]
fn wide_root_c6_eq() {
    check_wide(7, &[0, 0, 0, 0, 0, 0, 0], 0, &[1, 10, 10, 10, 10, 10, 10]);
}
// TIER: thorough
#[kani::proof]
fn wide_root_c6_zig() {
    check_wide(7, &[0, 0, 0, 0, 0, 0, 0], 0, &[1, 10, 16, 12, 18, 14, 20]);
}
// TIER: thorough
#[kani::proof]
fn wide_root_c6_zag() {
    check_wide(7, &[0, 0, 0, 0, 0, 0, 0], 0, &[1, 15, 11, 17, 13, 19, 15]);
}

// ---------------- generic helpers for the harnesses of other modules (timer) ----------------
/// `n` reaches the root of `h` by following at most `max` parent links
pub fn reaches_root<T>(h: &PairingHeap<T>, n: &HeapNode<T>, max: usize) -> bool {
    let mut cur: *const HeapNode<T> = n;
    let mut s = 0;
    let mut r = false;
    while s <= max {
        unsafe {
            match (*cur).parent {
                None => {
                    if let Some(root) = h.root {
                        if core::ptr::eq(root.as_ptr() as *const HeapNode<T>, cur) {
                            r = true;
                        }
                    }
                    return r;
                }
                Some(p) => cur = p.as_ptr(),
            }
        }
        s += 1;
    }
    false
}
/// the node carries no links at all
pub fn node_unlinked<T>(n: &HeapNode<T>) -> bool {
    n.parent.is_none() && n.prev.is_none() && n.next.is_none() && n.first_child.is_none()
}
