//! Kani harnesses for the shared handles of src/channel/oneshot_broadcast.rs (hooked inside `if_alloc::shared`): lifecycle C11.
//! GROUP: oneshot_broadcast_shared
//! MODULE: channel::oneshot_broadcast::if_alloc::shared::kani_verif_shared
//! TAGS: C01 C11 C17 C12
//! N: quick=4 thorough=4
//! UNWIND_EXTRA: 3
//! KIND: harness (loop-free handle code; full-domain handle counters where there are any)
//! BOUNDED: clone: full usize domain of the handle counter; drop: counter values 1, 2, isize::MAX; at most one receiver waiting
//! GENERATED from kani/shared_template.rs.in by kani/gen_oneshot.py.
use super::*;
use core::sync::atomic::Ordering;
#[path = "/verif/kani/kit.rs"]
mod kit;

fn closed_flag(ch: &GenericOneshotBroadcastChannel<NoopLock, u8>) -> bool {
    ch.inner.lock().is_fulfilled
}

/// the drop paths are checked for representative counter values (the code only tests `== 1`): 1, 2, isize::MAX
fn check_dropping_the_sender(n: usize) {
    let _ = n;
    let (s, r) = generic_oneshot_broadcast_channel::<NoopLock, u8>();

    let probe = r.inner.clone();
    drop(s);
    assert!(closed_flag(&probe.channel) == true, "[C11] the channel closes implicitly exactly when the LAST sender handle is dropped");
    core::mem::forget(r);
}

fn check_dropping_the_last_receiver(n: usize) {
    let _ = n;
    let (s, r) = generic_oneshot_broadcast_channel::<NoopLock, u8>();
    r.inner.receivers.store(n, Ordering::Relaxed);
    let probe = s.inner.clone();
    drop(r);
    assert!(closed_flag(&probe.channel) == (n == 1), "[C11] the channel closes implicitly exactly when the LAST receiver handle is dropped -- never while a handle of each side is still alive");
    core::mem::forget(s);
}

#[kani::proof]
fn receiver_clone_and_drop_count_handles() {
    let (s, r) = generic_oneshot_broadcast_channel::<NoopLock, u8>();
    let n: usize = kani::any();
    kani::assume(n >= 1 && n <= isize::MAX as usize);
    r.inner.receivers.store(n, Ordering::Relaxed);
    let c = r.clone();
    assert!(r.inner.receivers.load(Ordering::Relaxed) == n + 1, "[C11] cloning a receiver counts one more live receiver handle");
    assert!(!closed_flag(&s.inner.channel), "[C11] cloning never closes");
    drop(c);
    assert!(r.inner.receivers.load(Ordering::Relaxed) == n, "[C11] dropping a clone counts one less");
    assert!(!closed_flag(&s.inner.channel), "[C11] the channel stays open while a handle of each side is alive");
    core::mem::forget((s, r));
}

/// the constructor: one live handle per counted side, channel open -- so "count == number of live handles" holds from the start
#[kani::proof]
fn fresh_pair_counts_one_handle_per_side() {
    let (s, r) = generic_oneshot_broadcast_channel::<NoopLock, u8>();
    assert!(s.inner.receivers.load(Ordering::Relaxed) == 1, "[C11] a new shared channel counts exactly one receiver handle");
    assert!(!closed_flag(&s.inner.channel), "[C11] a new shared channel is open");
    core::mem::forget((s, r));
}

unsafe fn nw_clone(_: *const ()) -> core::task::RawWaker {
    core::task::RawWaker::new(core::ptr::null(), &NOOP)
}
unsafe fn nw_noop(_: *const ()) {}
static NOOP: core::task::RawWakerVTable = core::task::RawWakerVTable::new(nw_clone, nw_noop, nw_noop, nw_noop);

/// the shared handles put nothing of their own between the futures and the channel: a re-poll refreshes the stored waker,
/// and send / close wake the pending receiver exactly once, through the waker of its LATEST poll
#[kani::proof]
fn shared_receive_repoll_then_woken_through_latest_waker() {
    use core::future::Future;
    let (s, r) = generic_oneshot_broadcast_channel::<NoopLock, u8>();
    let w0 = kit::waker(0);
    let w1 = kit::waker(1);
    let mut f = core::mem::ManuallyDrop::new(r.receive());
    let mut cx0 = core::task::Context::from_waker(&w0);
    let p = unsafe { core::pin::Pin::new_unchecked(&mut *f) }.poll(&mut cx0);
    assert!(p.is_pending());
    let mut cx1 = core::task::Context::from_waker(&w1);
    let p = unsafe { core::pin::Pin::new_unchecked(&mut *f) }.poll(&mut cx1);
    assert!(p.is_pending() && kit::total_wakes() == 0, "[C12] polling wakes nobody");
    let with_value: bool = kani::any();
    if with_value {
        let _ = s.send(7);
    } else {
        let _ = s.inner.channel.close();
    }
    assert!(kit::wakes(1) == 1 && kit::wakes(0) == 0, "[C12] a pending shared receiver is woken by send / close exactly once, through the waker of its LATEST poll");
    let p = unsafe { core::pin::Pin::new_unchecked(&mut *f) }.poll(&mut cx1);
    assert!(p.is_ready(), "[C12] [C11] the woken shared receiver completes");
    core::mem::forget((s, r));
}

/// C12 through the SHARED handles (found by seeded change C12_r71: a "move instead of clone while one receiver handle is
/// left" fast path in the shared state's receive_or_register): EVERY receive yields a clone of the one value -- a future
/// that was pending before the send, and any number of futures created after it, from one and the same receiver handle
#[kani::proof]
fn shared_every_receive_yields_a_clone_of_the_value() {
    use core::future::Future;
    let (s, r) = generic_oneshot_broadcast_channel::<NoopLock, u8>();
    let wk = unsafe { core::task::Waker::from_raw(core::task::RawWaker::new(core::ptr::null(), &NOOP)) };
    let mut cx = core::task::Context::from_waker(&wk);
    let v: u8 = kani::any();
    let early: bool = kani::any();
    let mut f0 = core::mem::ManuallyDrop::new(r.receive());
    if early {
        let p = unsafe { core::pin::Pin::new_unchecked(&mut *f0) }.poll(&mut cx);
        assert!(p.is_pending(), "[C12] nothing to receive before the send");
    }
    assert!(s.send(v).is_ok(), "[C12] the first send on an open channel succeeds");
    let p = unsafe { core::pin::Pin::new_unchecked(&mut *f0) }.poll(&mut cx);
    assert!(p == core::task::Poll::Ready(Some(v)), "[C12] broadcast: a receive that started before or after the send yields the value");
    let mut f1 = core::mem::ManuallyDrop::new(r.receive());
    let p = unsafe { core::pin::Pin::new_unchecked(&mut *f1) }.poll(&mut cx);
    assert!(p == core::task::Poll::Ready(Some(v)), "[C12] broadcast: EVERY further receive yields a clone of the value, also while a single receiver handle is alive");
    let mut f2 = core::mem::ManuallyDrop::new(r.receive());
    let p = unsafe { core::pin::Pin::new_unchecked(&mut *f2) }.poll(&mut cx);
    assert!(p == core::task::Poll::Ready(Some(v)), "[C12] broadcast: ... and the one after that");
    assert!(s.send(v).is_err(), "[C12] every other send fails");
    core::mem::forget((s, r));
}

/// C01 for the shared flavour: a waiting shared receive future that is dropped is no longer in the channel's wait queue
/// (its Drop forwards to the channel), and the later send / close wakes nobody
#[kani::proof]
fn shared_receive_future_dropped_while_waiting_leaves_the_queue() {
    use core::future::Future;
    let (s, r) = generic_oneshot_broadcast_channel::<NoopLock, u8>();
    let w0 = kit::waker(0);
    let mut cx0 = core::task::Context::from_waker(&w0);
    let mut f = core::mem::ManuallyDrop::new(r.receive());
    let p = unsafe { core::pin::Pin::new_unchecked(&mut *f) }.poll(&mut cx0);
    assert!(p.is_pending());
    assert!(!s.inner.channel.inner.lock().waiters.is_empty(), "[C01] a pending shared receive future is queued");
    unsafe { core::mem::ManuallyDrop::drop(&mut f) };
    assert!(s.inner.channel.inner.lock().waiters.is_empty(), "[C01] a dropped shared receive future is no longer in the wait queue");
    let _ = s.inner.channel.close();
    assert!(kit::total_wakes() == 0, "[C01] nothing of a dropped future is touched or woken afterwards");
    core::mem::forget((s, r));
}

/// the shared (Arc) receive future: Pending keeps its handle, EVERY Ready (value or None) gives it up
#[kani::proof]
fn shared_receive_future_protocol() {
    use core::future::Future;
    use futures_core::future::FusedFuture;
    let (s, r) = generic_oneshot_broadcast_channel::<NoopLock, u8>();
    let wk = unsafe { core::task::Waker::from_raw(core::task::RawWaker::new(core::ptr::null(), &NOOP)) };
    let mut cx = core::task::Context::from_waker(&wk);
    let mut f = core::mem::ManuallyDrop::new(r.receive());
    assert!(!f.is_terminated(), "[C17] is_terminated() is false from creation");
    let p = unsafe { core::pin::Pin::new_unchecked(&mut *f) }.poll(&mut cx);
    assert!(p.is_pending() && !f.is_terminated(), "[C17] a pending shared receive future is not terminated (it puts its handle back)");
    let with_value: bool = kani::any();
    if with_value {
        let _ = s.send(7);
    } else {
        let _ = s.inner.channel.close();
    }
    let p = unsafe { core::pin::Pin::new_unchecked(&mut *f) }.poll(&mut cx);
    assert!(p.is_ready() && f.is_terminated(), "[C17] after Ready -- with a value or with None -- the future is terminated");
    core::mem::forget((s, r));
}

#[kani::proof]
#[kani::should_panic]
fn shared_receive_future_poll_after_none_panics() {
    use core::future::Future;
    let (s, r) = generic_oneshot_broadcast_channel::<NoopLock, u8>();
    let wk = unsafe { core::task::Waker::from_raw(core::task::RawWaker::new(core::ptr::null(), &NOOP)) };
    let mut cx = core::task::Context::from_waker(&wk);
    let mut f = core::mem::ManuallyDrop::new(r.receive());
    let _ = s.inner.channel.close();
    let p = unsafe { core::pin::Pin::new_unchecked(&mut *f) }.poll(&mut cx);
    assert!(p.is_ready());
    core::mem::forget((s, r));
    // polling after completion must panic rather than yield a second result
    let _ = unsafe { core::pin::Pin::new_unchecked(&mut *f) }.poll(&mut cx);
}
#[kani::proof]
fn dropping_the_sender_n1() {
    check_dropping_the_sender(1);
}
#[kani::proof]
fn dropping_the_sender_n2() {
    check_dropping_the_sender(2);
}
#[kani::proof]
fn dropping_the_sender_nmax() {
    check_dropping_the_sender(isize::MAX as usize);
}
#[kani::proof]
fn dropping_the_last_receiver_n1() {
    check_dropping_the_last_receiver(1);
}
#[kani::proof]
fn dropping_the_last_receiver_n2() {
    check_dropping_the_last_receiver(2);
}
#[kani::proof]
fn dropping_the_last_receiver_nmax() {
    check_dropping_the_last_receiver(isize::MAX as usize);
}
