//! Kani harnesses for src/channel/mpmc.rs + the borrowed futures of src/channel/channel_future.rs (glue L2 + wake events).
//! GROUP: mpmc
//! MODULE: channel::mpmc::kani_verif
//! TAGS: C01 C08 C09 C10 C11 C17 C18
//! N: quick=4 thorough=4
//! UNWIND_EXTRA: 3
//! KIND: harness (concrete queue shapes, symbolic buffer fill / payloads / closed flag)
//! BOUNDED: 2 receive + 2 send futures; capacities 0 and 1; every queue shape of the side under test
//! The transitions of `ChannelState` are proved for all queue lengths, capacities and buffer types by Verus (unit
//! `mpmc`); these harnesses decide the glue (futures, try_send/try_receive/close wrappers, stream), that the wakers
//! handed out by the state machine are really invoked exactly once, and memory safety on these shapes.
use super::*;
#[path = "/verif/kani/kit.rs"]
mod kit;
use crate::intrusive_double_linked_list::kani_verif as lv;
use core::mem::ManuallyDrop;
use core::task::Context;
use crate::channel::ChannelSendError;
use futures_core::future::FusedFuture;

type Ch<const C: usize> = GenericChannel<NoopLock, u8, ArrayBuf<u8, [u8; C]>>;
type RF = ChannelReceiveFuture<'static, NoopLock, u8>;
type SF = ChannelSendFuture<'static, NoopLock, u8>;

/// waker identities: receive future i -> i, send future i -> 2 + i  (kit::NW must be >= 4 + spare)
const RW: usize = 0;
const SW: usize = 2;

pub struct World<const C: usize>
where
    [u8; C]: crate::buffer::RealArray<u8> + AsMut<[u8]> + AsRef<[u8]>,
{
    ch: Ch<C>,
    rf: [ManuallyDrop<RF>; 2],
    sf: [ManuallyDrop<SF>; 2],
    /// receive futures: 0 Unregistered, 1 Registered (queued), 2 Notified (outside the queue, holds the wake-up), 3 terminated
    rst: [u8; 2],
    /// send futures: 0 Unregistered (holds its value), 1 Registered (queued, holds its value), 2 SendComplete, 3 terminated
    sst: [u8; 2],
    rorder: [usize; 2],
    rnq: usize,
    sorder: [usize; 2],
    snq: usize,
    blen: usize,
    bval: u8,
    sval: [u8; 2],
    closed: bool,
}

fn world<const C: usize>(rst: [u8; 2], rq: &[usize], sst: [u8; 2], sq: &[usize]) -> World<C>
where
    [u8; C]: crate::buffer::RealArray<u8> + AsMut<[u8]> + AsRef<[u8]>,
{
    let ch = Ch::<C>::new();
    let cp: &'static Ch<C> = unsafe { &*(&ch as *const Ch<C>) };
    let sval: [u8; 2] = [kani::any(), kani::any()];
    let mut w = World {
        rf: core::array::from_fn(|_| ManuallyDrop::new(cp.receive())),
        sf: core::array::from_fn(|i| ManuallyDrop::new(cp.send(sval[i]))),
        ch,
        rst,
        sst,
        rorder: [0; 2],
        rnq: rq.len(),
        sorder: [0; 2],
        snq: sq.len(),
        blen: 0,
        bval: kani::any(),
        sval,
        closed: kani::any(),
    };
    let mut q = 0;
    while q < rq.len() {
        w.rorder[q] = rq[q];
        q += 1;
    }
    let mut q = 0;
    while q < sq.len() {
        w.sorder[q] = sq[q];
        q += 1;
    }
    // invariants: nobody queued on a closed channel; senders park only while the buffer is full
    kani::assume(!(w.closed && (w.rnq > 0 || w.snq > 0)));
    w.blen = if w.snq > 0 { C } else { kit::any_lt(C + 1) };
    w
}

unsafe fn link<const C: usize>(w: &mut World<C>)
where
    [u8; C]: crate::buffer::RealArray<u8> + AsMut<[u8]> + AsRef<[u8]>,
{
    let cp: &'static Ch<C> = &*(&w.ch as *const Ch<C>);
    let mut i = 0;
    while i < 2 {
        let f = &mut *w.rf[i];
        f.channel = if w.rst[i] == 3 { None } else { Some(cp) };
        f.wait_node.state = match w.rst[i] {
            1 => RecvPollState::Registered,
            2 => RecvPollState::Notified,
            _ => RecvPollState::Unregistered,
        };
        f.wait_node.task = if w.rst[i] == 1 { Some(kit::waker(RW + i)) } else { None };
        let s = &mut *w.sf[i];
        s.channel = if w.sst[i] == 3 { None } else { Some(cp) };
        s.wait_node.state = match w.sst[i] {
            1 => SendPollState::Registered,
            2 => SendPollState::SendComplete,
            _ => SendPollState::Unregistered,
        };
        s.wait_node.task = if w.sst[i] == 1 { Some(kit::waker(SW + i)) } else { None };
        if w.sst[i] >= 2 {
            s.wait_node.value = None; // the value is gone once the send completed / terminated
        }
        i += 1;
    }
    let mut st = w.ch.inner.lock();
    st.is_closed = w.closed;
    let mut b = 0;
    while b < w.blen {
        st.buffer.push(w.bval);
        b += 1;
    }
    let mut q = w.rnq;
    while q > 0 {
        q -= 1;
        let n: *mut ListNode<RecvWaitQueueEntry> = &mut w.rf[w.rorder[q]].wait_node;
        st.receive_waiters.add_front(&mut *n);
    }
    let mut q = w.snq;
    while q > 0 {
        q -= 1;
        let n: *mut ListNode<SendWaitQueueEntry<u8>> = &mut w.sf[w.sorder[q]].wait_node;
        st.send_waiters.add_front(&mut *n);
    }
}

fn rstate<const C: usize>(w: &World<C>, i: usize) -> u8
where
    [u8; C]: crate::buffer::RealArray<u8> + AsMut<[u8]> + AsRef<[u8]>,
{
    match w.rf[i].wait_node.state {
        RecvPollState::Unregistered => 0,
        RecvPollState::Registered => 1,
        RecvPollState::Notified => 2,
    }
}
fn sstate<const C: usize>(w: &World<C>, i: usize) -> u8
where
    [u8; C]: crate::buffer::RealArray<u8> + AsMut<[u8]> + AsRef<[u8]>,
{
    match w.sf[i].wait_node.state {
        SendPollState::Unregistered => 0,
        SendPollState::Registered => 1,
        SendPollState::SendComplete => 2,
    }
}

/// both queues well formed and containing exactly the Registered futures of their side, each once
fn queues_ok<const C: usize>(w: &World<C>) -> bool
where
    [u8; C]: crate::buffer::RealArray<u8> + AsMut<[u8]> + AsRef<[u8]>,
{
    let st = w.ch.inner.lock();
    let mut ok = lv::wf(&st.receive_waiters) && lv::wf(&st.send_waiters);
    let (mut er, mut es) = (0, 0);
    let mut i = 0;
    while i < 2 {
        let r = rstate(w, i) == 1;
        let s = sstate(w, i) == 1;
        if r {
            er += 1;
        }
        if s {
            es += 1;
        }
        if r != lv::contains(&st.receive_waiters, &w.rf[i].wait_node) || s != lv::contains(&st.send_waiters, &w.sf[i].wait_node) {
            ok = false;
        }
        if s && w.sf[i].wait_node.value.is_none() {
            ok = false; // a parked sender still holds its value
        }
        i += 1;
    }
    ok && lv::len(&st.receive_waiters) == er && lv::len(&st.send_waiters) == es && st.buffer.len() <= st.buffer.capacity()
}
fn blen<const C: usize>(w: &World<C>) -> usize
where
    [u8; C]: crate::buffer::RealArray<u8> + AsMut<[u8]> + AsRef<[u8]>,
{
    w.ch.inner.lock().buffer.len()
}
/// wake counters: exactly the futures in `expect` (waker ids) were woken, exactly once each
fn woken_exactly(expect: &[usize]) -> bool {
    let mut ok = true;
    let mut i = 0;
    while i < kit::NW {
        let mut e = 0u8;
        let mut k = 0;
        while k < expect.len() {
            if expect[k] == i {
                e = 1;
            }
            k += 1;
        }
        if kit::wakes(i) != e {
            ok = false;
        }
        i += 1;
    }
    ok
}

// ------------------------------------------------------------------------------------------------
fn check_recv_poll<const C: usize>(rst: [u8; 2], rq: &[usize], sst: [u8; 2], sq: &[usize])
where
    [u8; C]: crate::buffer::RealArray<u8> + AsMut<[u8]> + AsRef<[u8]>,
{
    let i = 0;
    let mut w = world::<C>(rst, rq, sst, sq);
    unsafe { link(&mut w) };
    assert!(queues_ok(&w));
    kani::assume(rst[i] != 3);
    let wk = kit::waker(4 + kit::any_lt(2));
    let mut cx = Context::from_waker(&wk);
    let avail = w.blen > 0 || w.snq > 0;
    let oldest_sender = if w.snq > 0 { w.sorder[w.snq - 1] } else { 2 };
    let rq0 = lv::view(&w.ch.inner.lock().receive_waiters);
    kit::arm();
    let r = unsafe { core::pin::Pin::new_unchecked(&mut *w.rf[i]) }.poll(&mut cx);
    let term = w.rf[i].is_terminated();
    kit::disarm();
    assert!(r.is_ready() == term, "[C17] is_terminated() must be true exactly after Ready");
    assert!(queues_ok(&w), "[C01] the queues must contain exactly the live waiting futures");
    match r {
        core::task::Poll::Ready(Some(v)) => {
            assert!(rst[i] != 1 && avail, "[C08] a value is received only if one is in flight");
            let expected = if w.blen > 0 { w.bval } else { w.sval[oldest_sender] };
            assert!(v == expected, "[C08] [C09] the received value is the oldest one in flight");
            if oldest_sender < 2 {
                assert!(woken_exactly(&[SW + oldest_sender]), "[C10] the sender whose value was accepted is woken exactly once through its latest waker");
                assert!(sstate(&w, oldest_sender) == 2 && w.sf[oldest_sender].wait_node.value.is_none(), "[C09] the accepted sender is SendComplete and no longer holds the value");
                assert!(blen(&w) == w.blen, "[C09] the freed slot is refilled from the oldest parked sender (rendezvous when unbuffered)");
            } else {
                assert!(woken_exactly(&[]), "[C10] nobody else is woken");
                assert!(blen(&w) + 1 == w.blen, "[C08] exactly one value leaves the buffer");
            }
        }
        core::task::Poll::Ready(None) => {
            assert!(w.closed && !avail, "[C11] None only from a closed and drained channel");
            assert!(woken_exactly(&[]), "[C10] nobody is woken");
        }
        core::task::Poll::Pending => {
            assert!(rst[i] == 1 || (!avail && !w.closed), "[C10] [C11] a receiver goes to waiting only if nothing is available and the channel is open");
            let t = w.rf[i].wait_node.task.as_ref();
            assert!(t.is_some() && t.unwrap().will_wake(&wk), "[C10] a pending receiver is registered with the waker of its latest poll");
            assert!(woken_exactly(&[]), "[C10] nobody is woken");
            if rst[i] == 1 {
                assert!(lv::same(rq0, lv::view(&w.ch.inner.lock().receive_waiters)), "[C10] re-polling a waiting receiver (with whatever waker) does not change its place among the receivers: the longest-waiting one is served first");
            }
            assert!(blen(&w) == w.blen, "[C08] a pending receive takes nothing");
        }
    }
}

fn check_recv_drop<const C: usize>(rst: [u8; 2], rq: &[usize], sst: [u8; 2], sq: &[usize])
where
    [u8; C]: crate::buffer::RealArray<u8> + AsMut<[u8]> + AsRef<[u8]>,
{
    let i = 0;
    let mut w = world::<C>(rst, rq, sst, sq);
    unsafe { link(&mut w) };
    // the oldest receiver that remains queued inherits a wake-up held by the dropped one
    let mut heir = 2;
    let mut q = 0;
    while q < w.rnq {
        if w.rorder[q] != i {
            heir = w.rorder[q];
        }
        q += 1;
    }
    kit::arm();
    unsafe { ManuallyDrop::drop(&mut w.rf[i]) };
    kit::disarm();
    {
        let st = w.ch.inner.lock();
        assert!(!lv::contains(&st.receive_waiters, &w.rf[i].wait_node), "[C01] a dropped future is no longer in the wait queue");
        assert!(lv::wf(&st.receive_waiters) && lv::wf(&st.send_waiters), "[C01] queues consistent after cancellation");
        assert!(st.buffer.len() == w.blen, "[C08] a cancelled receive takes nothing");
    }
    if rst[i] == 2 && heir < 2 {
        assert!(woken_exactly(&[RW + heir]), "[C10] a notified receiver that is dropped passes the wake-up on to the longest-waiting receiver");
        assert!(rstate(&w, heir) == 2, "[C10] the heir holds the notification");
    } else {
        assert!(woken_exactly(&[]), "[C10] nobody else is woken by a cancellation");
    }
}

fn check_send_poll<const C: usize>(rst: [u8; 2], rq: &[usize], sst: [u8; 2], sq: &[usize])
where
    [u8; C]: crate::buffer::RealArray<u8> + AsMut<[u8]> + AsRef<[u8]>,
{
    let i = 0;
    let mut w = world::<C>(rst, rq, sst, sq);
    unsafe { link(&mut w) };
    assert!(queues_ok(&w));
    kani::assume(sst[i] != 3);
    let wk = kit::waker(4 + kit::any_lt(2));
    let mut cx = Context::from_waker(&wk);
    let oldest_recv = if w.rnq > 0 { w.rorder[w.rnq - 1] } else { 2 };
    let room = w.blen < C;
    let sq0 = lv::view(&w.ch.inner.lock().send_waiters);
    kit::arm();
    let r = unsafe { core::pin::Pin::new_unchecked(&mut *w.sf[i]) }.poll(&mut cx);
    let term = w.sf[i].is_terminated();
    kit::disarm();
    assert!(r.is_ready() == term, "[C17] is_terminated() must be true exactly after Ready");
    assert!(queues_ok(&w), "[C01] the queues must contain exactly the live waiting futures");
    let announced = sst[i] == 0 && !w.closed; // the value became available to receivers in this poll
    match r {
        core::task::Poll::Ready(Ok(())) => {
            assert!(sst[i] == 2 || (sst[i] == 0 && !w.closed && room), "[C09] a send completes only once its value is stored in the buffer or was taken by a receiver");
            if sst[i] == 0 {
                assert!(blen(&w) == w.blen + 1, "[C08] the value is stored in the buffer");
            }
            assert!(w.sf[i].wait_node.value.is_none(), "[C08] the value left the future");
        }
        core::task::Poll::Ready(Err(ChannelSendError(v))) => {
            assert!(w.closed && sst[i] == 0, "[C11] a send fails only on a closed channel");
            assert!(v == w.sval[i], "[C08] [C11] a failed send hands back the caller's own value");
            assert!(blen(&w) == w.blen, "[C08] nothing is stored by a failed send");
        }
        core::task::Poll::Pending => {
            assert!(sst[i] == 1 || (sst[i] == 0 && !w.closed && !room), "[C09] a sender parks only while the channel is open and full");
            let t = w.sf[i].wait_node.task.as_ref();
            assert!(t.is_some() && t.unwrap().will_wake(&wk), "[C10] a pending sender is registered with the waker of its latest poll");
            if sst[i] == 1 {
                // (found by seeded change C09_r71: a re-poll with another waker re-queued the sender as the youngest)
                assert!(lv::same(sq0, lv::view(&w.ch.inner.lock().send_waiters)), "[C09] re-polling a parked sender (with whatever waker) does not change its place among the senders: values are received in the order of the FIRST polls");
            }
            assert!(w.sf[i].wait_node.value == Some(w.sval[i]), "[C08] a parked sender keeps its value");
            assert!(blen(&w) == w.blen, "[C09] the buffer never exceeds its capacity");
        }
    }
    if announced && oldest_recv < 2 {
        assert!(woken_exactly(&[RW + oldest_recv]), "[C10] when a value becomes available the longest-waiting receiver is woken exactly once through its latest waker");
        assert!(rstate(&w, oldest_recv) == 2, "[C10] the woken receiver holds the notification");
    } else {
        assert!(woken_exactly(&[]), "[C10] nobody else is woken");
    }
}

fn check_send_drop_or_cancel<const C: usize>(rst: [u8; 2], rq: &[usize], sst: [u8; 2], sq: &[usize])
where
    [u8; C]: crate::buffer::RealArray<u8> + AsMut<[u8]> + AsRef<[u8]>,
{
    let i = 0;
    let mut w = world::<C>(rst, rq, sst, sq);
    unsafe { link(&mut w) };
    let cancel: bool = kani::any();
    kit::arm();
    if cancel {
        let v = w.sf[i].cancel();
        assert!(v == (if sst[i] <= 1 { Some(w.sval[i]) } else { None }), "[C08] cancel() hands the value back iff the future still holds it");
        assert!(w.sf[i].is_terminated(), "[C17] a cancelled send future is terminated");
    } else {
        unsafe { ManuallyDrop::drop(&mut w.sf[i]) };
    }
    kit::disarm();
    let st = w.ch.inner.lock();
    assert!(!lv::contains(&st.send_waiters, &w.sf[i].wait_node), "[C01] a dropped / cancelled future is no longer in the wait queue");
    assert!(lv::wf(&st.receive_waiters) && lv::wf(&st.send_waiters), "[C01] queues consistent after cancellation");
    assert!(st.buffer.len() == w.blen, "[C08] [C09] cancelling a send stores nothing and removes nothing");
    assert!(woken_exactly(&[]), "[C10] nobody is woken by cancelling a send");
    let o = 1;
    assert!(lv::contains(&st.send_waiters, &w.sf[o].wait_node) == (sst[o] == 1), "[C09] the other parked senders keep their place");
}

fn check_try_send<const C: usize>(rst: [u8; 2], rq: &[usize], sst: [u8; 2], sq: &[usize])
where
    [u8; C]: crate::buffer::RealArray<u8> + AsMut<[u8]> + AsRef<[u8]>,
{
    let mut w = world::<C>(rst, rq, sst, sq);
    unsafe { link(&mut w) };
    let v: u8 = kani::any();
    let oldest_recv = if w.rnq > 0 { w.rorder[w.rnq - 1] } else { 2 };
    kit::arm();
    let r = w.ch.try_send(v);
    kit::disarm();
    match r {
        Ok(()) => {
            assert!(!w.closed && w.blen < C && blen(&w) == w.blen + 1, "[C08] [C09] [C11] try_send succeeds exactly on an open channel with room and stores the value");
            if oldest_recv < 2 {
                assert!(woken_exactly(&[RW + oldest_recv]), "[C10] the longest-waiting receiver is woken exactly once for the new value");
            } else {
                assert!(woken_exactly(&[]), "[C10] nobody to wake");
            }
        }
        Err(TrySendError::Closed(x)) => {
            assert!(w.closed && x == v && blen(&w) == w.blen, "[C08] [C11] Closed hands back the caller's own value");
            assert!(woken_exactly(&[]), "[C10] nobody is woken");
        }
        Err(TrySendError::Full(x)) => {
            assert!(!w.closed && w.blen == C && x == v && blen(&w) == w.blen, "[C08] [C09] Full hands back the caller's own value");
            assert!(woken_exactly(&[]), "[C10] nobody is woken");
        }
    }
    assert!(queues_ok(&w), "[C01] queues consistent after try_send");
}

fn check_try_receive<const C: usize>(rst: [u8; 2], rq: &[usize], sst: [u8; 2], sq: &[usize])
where
    [u8; C]: crate::buffer::RealArray<u8> + AsMut<[u8]> + AsRef<[u8]>,
{
    let mut w = world::<C>(rst, rq, sst, sq);
    unsafe { link(&mut w) };
    let avail = w.blen > 0 || w.snq > 0;
    let oldest_sender = if w.snq > 0 { w.sorder[w.snq - 1] } else { 2 };
    kit::arm();
    let r = w.ch.try_receive();
    kit::disarm();
    match r {
        Ok(v) => {
            assert!(avail, "[C08] a value is received only if one is in flight");
            let expected = if w.blen > 0 { w.bval } else { w.sval[oldest_sender] };
            assert!(v == expected, "[C08] [C09] the received value is the oldest one in flight");
            if oldest_sender < 2 {
                assert!(woken_exactly(&[SW + oldest_sender]), "[C10] the sender whose value was accepted is woken exactly once");
            } else {
                assert!(woken_exactly(&[]), "[C10] nobody else is woken");
            }
        }
        Err(e) => {
            assert!(!avail && e.is_closed() == w.closed, "[C11] Closed iff closed and drained, else Empty");
            assert!(woken_exactly(&[]), "[C10] nobody is woken");
        }
    }
    assert!(queues_ok(&w), "[C01] queues consistent after try_receive");
}

fn check_close<const C: usize>(rst: [u8; 2], rq: &[usize], sst: [u8; 2], sq: &[usize])
where
    [u8; C]: crate::buffer::RealArray<u8> + AsMut<[u8]> + AsRef<[u8]>,
{
    let mut w = world::<C>(rst, rq, sst, sq);
    unsafe { link(&mut w) };
    kit::arm();
    let r = w.ch.close();
    kit::disarm();
    assert!(r.is_newly_closed() == !w.closed, "[C11] NewlyClosed exactly once");
    assert!(w.ch.inner.lock().is_closed, "[C11] close() is permanent");
    assert!(blen(&w) == w.blen, "[C08] [C11] values accepted before the close stay receivable");
    let mut i = 0;
    while i < 2 {
        assert!(kit::wakes(RW + i) == (if rst[i] == 1 { 1 } else { 0 }), "[C10] [C11] every pending receiver is woken exactly once by close(), nobody else");
        assert!(kit::wakes(SW + i) == (if sst[i] == 1 { 1 } else { 0 }), "[C10] [C11] every pending sender is woken exactly once by close(), nobody else");
        if sst[i] == 1 {
            assert!(w.sf[i].wait_node.value == Some(w.sval[i]) && sstate(&w, i) == 0, "[C08] a parked value stays in its future (handed back at its next poll)");
        }
        i += 1;
    }
    assert!(queues_ok(&w), "[C01] queues consistent (empty) after close");
    let mut i = 0;
    while i < 2 {
        assert!(w.rf[i].is_terminated() == (rst[i] == 3) && w.sf[i].is_terminated() == (sst[i] == 3), "[C17] close() terminates no future: a woken future is not terminated until its poll returned Ready");
        i += 1;
    }
}

fn check_stream<const C: usize>(rst: [u8; 2], rq: &[usize], sst: [u8; 2], sq: &[usize])
where
    [u8; C]: crate::buffer::RealArray<u8> + AsMut<[u8]> + AsRef<[u8]>,
{
    use futures_core::stream::{FusedStream, Stream};
    let mut w = world::<C>(rst, rq, sst, sq);
    unsafe { link(&mut w) };
    let cp: &'static Ch<C> = unsafe { &*(&w.ch as *const Ch<C>) };
    let mut s = ManuallyDrop::new(cp.stream());
    assert!(!s.is_terminated(), "[C17] a new stream is not terminated");
    let wk = kit::waker(4);
    let mut cx = Context::from_waker(&wk);
    let avail = w.blen > 0 || w.snq > 0;
    let oldest_sender = if w.snq > 0 { w.sorder[w.snq - 1] } else { 2 };
    let r = unsafe { core::pin::Pin::new_unchecked(&mut *s) }.poll_next(&mut cx);
    match r {
        core::task::Poll::Ready(Some(v)) => {
            let expected = if w.blen > 0 { w.bval } else { w.sval[oldest_sender] };
            assert!(avail && v == expected, "[C17] [C08] a stream yields exactly the value a receive would return");
            assert!(!s.is_terminated(), "[C17] a stream that yielded a value is not terminated");
        }
        core::task::Poll::Ready(None) => {
            assert!(w.closed && !avail, "[C17] [C11] a stream ends only when the channel is closed and drained");
            assert!(s.is_terminated(), "[C17] a finished stream reports terminated");
            let r2 = unsafe { core::pin::Pin::new_unchecked(&mut *s) }.poll_next(&mut cx);
            assert!(matches!(r2, core::task::Poll::Ready(None)) && s.is_terminated(), "[C17] a finished stream stays finished");
        }
        core::task::Poll::Pending => {
            assert!(!avail && !w.closed, "[C17] a stream is pending exactly when a receive would be");
            assert!(!s.is_terminated(), "[C17] a pending stream is not terminated");
        }
    }
    // dropping the stream unregisters its internal future
    unsafe { ManuallyDrop::drop(&mut s) };
    assert!(queues_ok(&w), "[C01] queues consistent after the stream is dropped");
}

fn check_poll_after_completion() {
    let mut w = world::<1>([3, 0], &[], [0, 0], &[]);
    unsafe { link(&mut w) };
    let wk = kit::waker(4);
    let mut cx = Context::from_waker(&wk);
    let _ = unsafe { core::pin::Pin::new_unchecked(&mut *w.rf[0]) }.poll(&mut cx);
}
fn check_send_poll_after_completion() {
    let mut w = world::<1>([0, 0], &[], [3, 0], &[]);
    unsafe { link(&mut w) };
    let wk = kit::waker(4);
    let mut cx = Context::from_waker(&wk);
    let _ = unsafe { core::pin::Pin::new_unchecked(&mut *w.sf[0]) }.poll(&mut cx);
}

#[kani::proof]
fn fresh_futures_are_not_terminated() {
    let ch = Ch::<1>::new();
    let r = ch.receive();
    let v: u8 = kani::any();
    let s = ch.send(v);
    assert!(!r.is_terminated() && !s.is_terminated(), "[C17] is_terminated() is false from creation");
    assert!(r.wait_node.state == RecvPollState::Unregistered && r.wait_node.task.is_none(), "[C10] a new receive future holds no notification and no place in the queue");
    assert!(s.wait_node.state == SendPollState::Unregistered && s.wait_node.task.is_none() && s.wait_node.value == Some(v), "[C08] [C09] a new send future holds exactly its value; the send takes effect at its first poll");
    let st = ch.inner.lock();
    assert!(!st.is_closed && st.buffer.len() == 0 && st.receive_waiters.is_empty() && st.send_waiters.is_empty(), "[C11] [C01] a new channel is open and empty; creating futures does not touch it");
}

#[kani::proof]
#[kani::should_panic]
fn try_send_on_unbuffered_channel_panics() {
    // documented: try_send is not supported for unbuffered channels (debug assertion)
    let ch = Ch::<0>::new();
    let _ = ch.try_send(1);
}

macro_rules! inst {
    ($name:ident, $check:ident :: < $c:literal > ( $($arg:expr),* )) => {
        #[kani::proof]
        #[kani::stub(alloc::alloc::alloc, kit::no_alloc)]
        #[kani::stub(alloc::alloc::dealloc, kit::no_dealloc)]
        fn $name() {
            $check::<$c>($($arg),*);
        }
    };
}
macro_rules! inst_t {
    ($name:ident, $check:ident :: < $c:literal > ( $($arg:expr),* )) => {
        #[kani::proof]
        #[kani::stub(alloc::alloc::alloc, kit::no_alloc)]
        #[kani::stub(alloc::alloc::dealloc, kit::no_dealloc)]
        fn $name() {
            $check::<$c>($($arg),*);
        }
    };
}

inst!(recv_poll_c1_rs00_q_xs00_q, check_recv_poll::<1>([0, 0], &[], [0, 0], &[]));
inst!(recv_drop_c1_rs00_q_xs00_q, check_recv_drop::<1>([0, 0], &[], [0, 0], &[]));
inst!(recv_poll_c1_rs00_q_xs10_q0, check_recv_poll::<1>([0, 0], &[], [1, 0], &[0]));
inst_t!(recv_drop_c1_rs00_q_xs10_q0, check_recv_drop::<1>([0, 0], &[], [1, 0], &[0]));
inst_t!(recv_poll_c1_rs00_q_xs11_q01, check_recv_poll::<1>([0, 0], &[], [1, 1], &[0, 1]));
inst_t!(recv_drop_c1_rs00_q_xs11_q01, check_recv_drop::<1>([0, 0], &[], [1, 1], &[0, 1]));
inst!(send_poll_c1_ss00_q_xs00_q, check_send_poll::<1>([0, 0], &[], [0, 0], &[]));
inst!(send_drop_c1_ss00_q_xs00_q, check_send_drop_or_cancel::<1>([0, 0], &[], [0, 0], &[]));
inst!(send_poll_c1_ss00_q_xs10_q0, check_send_poll::<1>([1, 0], &[0], [0, 0], &[]));
inst_t!(send_drop_c1_ss00_q_xs10_q0, check_send_drop_or_cancel::<1>([1, 0], &[0], [0, 0], &[]));
inst_t!(send_poll_c1_ss00_q_xs20_q, check_send_poll::<1>([2, 0], &[], [0, 0], &[]));
inst_t!(send_drop_c1_ss00_q_xs20_q, check_send_drop_or_cancel::<1>([2, 0], &[], [0, 0], &[]));
inst_t!(send_poll_c1_ss00_q_xs11_q01, check_send_poll::<1>([1, 1], &[0, 1], [0, 0], &[]));
inst_t!(send_drop_c1_ss00_q_xs11_q01, check_send_drop_or_cancel::<1>([1, 1], &[0, 1], [0, 0], &[]));
inst!(recv_poll_c1_rs01_q1_xs00_q, check_recv_poll::<1>([0, 1], &[1], [0, 0], &[]));
inst!(recv_drop_c1_rs01_q1_xs00_q, check_recv_drop::<1>([0, 1], &[1], [0, 0], &[]));
inst!(recv_poll_c1_rs01_q1_xs10_q0, check_recv_poll::<1>([0, 1], &[1], [1, 0], &[0]));
inst_t!(recv_drop_c1_rs01_q1_xs10_q0, check_recv_drop::<1>([0, 1], &[1], [1, 0], &[0]));
inst_t!(recv_poll_c1_rs01_q1_xs11_q01, check_recv_poll::<1>([0, 1], &[1], [1, 1], &[0, 1]));
inst_t!(recv_drop_c1_rs01_q1_xs11_q01, check_recv_drop::<1>([0, 1], &[1], [1, 1], &[0, 1]));
inst!(send_poll_c1_ss01_q1_xs00_q, check_send_poll::<1>([0, 0], &[], [0, 1], &[1]));
inst!(send_drop_c1_ss01_q1_xs00_q, check_send_drop_or_cancel::<1>([0, 0], &[], [0, 1], &[1]));
inst!(send_poll_c1_ss01_q1_xs10_q0, check_send_poll::<1>([1, 0], &[0], [0, 1], &[1]));
inst_t!(send_drop_c1_ss01_q1_xs10_q0, check_send_drop_or_cancel::<1>([1, 0], &[0], [0, 1], &[1]));
inst_t!(send_poll_c1_ss01_q1_xs20_q, check_send_poll::<1>([2, 0], &[], [0, 1], &[1]));
inst_t!(send_drop_c1_ss01_q1_xs20_q, check_send_drop_or_cancel::<1>([2, 0], &[], [0, 1], &[1]));
inst_t!(send_poll_c1_ss01_q1_xs11_q01, check_send_poll::<1>([1, 1], &[0, 1], [0, 1], &[1]));
inst_t!(send_drop_c1_ss01_q1_xs11_q01, check_send_drop_or_cancel::<1>([1, 1], &[0, 1], [0, 1], &[1]));
inst!(recv_poll_c1_rs02_q_xs00_q, check_recv_poll::<1>([0, 2], &[], [0, 0], &[]));
inst!(recv_drop_c1_rs02_q_xs00_q, check_recv_drop::<1>([0, 2], &[], [0, 0], &[]));
inst!(recv_poll_c1_rs02_q_xs10_q0, check_recv_poll::<1>([0, 2], &[], [1, 0], &[0]));
inst_t!(recv_drop_c1_rs02_q_xs10_q0, check_recv_drop::<1>([0, 2], &[], [1, 0], &[0]));
inst_t!(recv_poll_c1_rs02_q_xs11_q01, check_recv_poll::<1>([0, 2], &[], [1, 1], &[0, 1]));
inst_t!(recv_drop_c1_rs02_q_xs11_q01, check_recv_drop::<1>([0, 2], &[], [1, 1], &[0, 1]));
inst!(send_poll_c1_ss02_q_xs00_q, check_send_poll::<1>([0, 0], &[], [0, 2], &[]));
inst!(send_drop_c1_ss02_q_xs00_q, check_send_drop_or_cancel::<1>([0, 0], &[], [0, 2], &[]));
inst!(send_poll_c1_ss02_q_xs10_q0, check_send_poll::<1>([1, 0], &[0], [0, 2], &[]));
inst_t!(send_drop_c1_ss02_q_xs10_q0, check_send_drop_or_cancel::<1>([1, 0], &[0], [0, 2], &[]));
inst_t!(send_poll_c1_ss02_q_xs20_q, check_send_poll::<1>([2, 0], &[], [0, 2], &[]));
inst_t!(send_drop_c1_ss02_q_xs20_q, check_send_drop_or_cancel::<1>([2, 0], &[], [0, 2], &[]));
inst_t!(send_poll_c1_ss02_q_xs11_q01, check_send_poll::<1>([1, 1], &[0, 1], [0, 2], &[]));
inst_t!(send_drop_c1_ss02_q_xs11_q01, check_send_drop_or_cancel::<1>([1, 1], &[0, 1], [0, 2], &[]));
inst!(recv_poll_c1_rs03_q_xs00_q, check_recv_poll::<1>([0, 3], &[], [0, 0], &[]));
inst!(recv_drop_c1_rs03_q_xs00_q, check_recv_drop::<1>([0, 3], &[], [0, 0], &[]));
inst!(recv_poll_c1_rs03_q_xs10_q0, check_recv_poll::<1>([0, 3], &[], [1, 0], &[0]));
inst_t!(recv_drop_c1_rs03_q_xs10_q0, check_recv_drop::<1>([0, 3], &[], [1, 0], &[0]));
inst_t!(recv_poll_c1_rs03_q_xs11_q01, check_recv_poll::<1>([0, 3], &[], [1, 1], &[0, 1]));
inst_t!(recv_drop_c1_rs03_q_xs11_q01, check_recv_drop::<1>([0, 3], &[], [1, 1], &[0, 1]));
inst!(send_poll_c1_ss03_q_xs00_q, check_send_poll::<1>([0, 0], &[], [0, 3], &[]));
inst!(send_drop_c1_ss03_q_xs00_q, check_send_drop_or_cancel::<1>([0, 0], &[], [0, 3], &[]));
inst!(send_poll_c1_ss03_q_xs10_q0, check_send_poll::<1>([1, 0], &[0], [0, 3], &[]));
inst_t!(send_drop_c1_ss03_q_xs10_q0, check_send_drop_or_cancel::<1>([1, 0], &[0], [0, 3], &[]));
inst_t!(send_poll_c1_ss03_q_xs20_q, check_send_poll::<1>([2, 0], &[], [0, 3], &[]));
inst_t!(send_drop_c1_ss03_q_xs20_q, check_send_drop_or_cancel::<1>([2, 0], &[], [0, 3], &[]));
inst_t!(send_poll_c1_ss03_q_xs11_q01, check_send_poll::<1>([1, 1], &[0, 1], [0, 3], &[]));
inst_t!(send_drop_c1_ss03_q_xs11_q01, check_send_drop_or_cancel::<1>([1, 1], &[0, 1], [0, 3], &[]));
inst!(recv_poll_c1_rs10_q0_xs00_q, check_recv_poll::<1>([1, 0], &[0], [0, 0], &[]));
inst!(recv_drop_c1_rs10_q0_xs00_q, check_recv_drop::<1>([1, 0], &[0], [0, 0], &[]));
inst!(recv_poll_c1_rs10_q0_xs10_q0, check_recv_poll::<1>([1, 0], &[0], [1, 0], &[0]));
inst_t!(recv_drop_c1_rs10_q0_xs10_q0, check_recv_drop::<1>([1, 0], &[0], [1, 0], &[0]));
inst_t!(recv_poll_c1_rs10_q0_xs11_q01, check_recv_poll::<1>([1, 0], &[0], [1, 1], &[0, 1]));
inst_t!(recv_drop_c1_rs10_q0_xs11_q01, check_recv_drop::<1>([1, 0], &[0], [1, 1], &[0, 1]));
inst!(send_poll_c1_ss10_q0_xs00_q, check_send_poll::<1>([0, 0], &[], [1, 0], &[0]));
inst!(send_drop_c1_ss10_q0_xs00_q, check_send_drop_or_cancel::<1>([0, 0], &[], [1, 0], &[0]));
inst!(send_poll_c1_ss10_q0_xs10_q0, check_send_poll::<1>([1, 0], &[0], [1, 0], &[0]));
inst_t!(send_drop_c1_ss10_q0_xs10_q0, check_send_drop_or_cancel::<1>([1, 0], &[0], [1, 0], &[0]));
inst_t!(send_poll_c1_ss10_q0_xs20_q, check_send_poll::<1>([2, 0], &[], [1, 0], &[0]));
inst_t!(send_drop_c1_ss10_q0_xs20_q, check_send_drop_or_cancel::<1>([2, 0], &[], [1, 0], &[0]));
inst_t!(send_poll_c1_ss10_q0_xs11_q01, check_send_poll::<1>([1, 1], &[0, 1], [1, 0], &[0]));
inst_t!(send_drop_c1_ss10_q0_xs11_q01, check_send_drop_or_cancel::<1>([1, 1], &[0, 1], [1, 0], &[0]));
inst!(recv_poll_c1_rs11_q01_xs00_q, check_recv_poll::<1>([1, 1], &[0, 1], [0, 0], &[]));
inst!(recv_drop_c1_rs11_q01_xs00_q, check_recv_drop::<1>([1, 1], &[0, 1], [0, 0], &[]));
inst!(recv_poll_c1_rs11_q01_xs10_q0, check_recv_poll::<1>([1, 1], &[0, 1], [1, 0], &[0]));
inst_t!(recv_drop_c1_rs11_q01_xs10_q0, check_recv_drop::<1>([1, 1], &[0, 1], [1, 0], &[0]));
inst_t!(recv_poll_c1_rs11_q01_xs11_q01, check_recv_poll::<1>([1, 1], &[0, 1], [1, 1], &[0, 1]));
inst_t!(recv_drop_c1_rs11_q01_xs11_q01, check_recv_drop::<1>([1, 1], &[0, 1], [1, 1], &[0, 1]));
inst!(send_poll_c1_ss11_q01_xs00_q, check_send_poll::<1>([0, 0], &[], [1, 1], &[0, 1]));
inst!(send_drop_c1_ss11_q01_xs00_q, check_send_drop_or_cancel::<1>([0, 0], &[], [1, 1], &[0, 1]));
inst!(send_poll_c1_ss11_q01_xs10_q0, check_send_poll::<1>([1, 0], &[0], [1, 1], &[0, 1]));
inst_t!(send_drop_c1_ss11_q01_xs10_q0, check_send_drop_or_cancel::<1>([1, 0], &[0], [1, 1], &[0, 1]));
inst_t!(send_poll_c1_ss11_q01_xs20_q, check_send_poll::<1>([2, 0], &[], [1, 1], &[0, 1]));
inst_t!(send_drop_c1_ss11_q01_xs20_q, check_send_drop_or_cancel::<1>([2, 0], &[], [1, 1], &[0, 1]));
inst_t!(send_poll_c1_ss11_q01_xs11_q01, check_send_poll::<1>([1, 1], &[0, 1], [1, 1], &[0, 1]));
inst_t!(send_drop_c1_ss11_q01_xs11_q01, check_send_drop_or_cancel::<1>([1, 1], &[0, 1], [1, 1], &[0, 1]));
inst!(recv_poll_c1_rs11_q10_xs00_q, check_recv_poll::<1>([1, 1], &[1, 0], [0, 0], &[]));
inst!(recv_drop_c1_rs11_q10_xs00_q, check_recv_drop::<1>([1, 1], &[1, 0], [0, 0], &[]));
inst!(recv_poll_c1_rs11_q10_xs10_q0, check_recv_poll::<1>([1, 1], &[1, 0], [1, 0], &[0]));
inst_t!(recv_drop_c1_rs11_q10_xs10_q0, check_recv_drop::<1>([1, 1], &[1, 0], [1, 0], &[0]));
inst_t!(recv_poll_c1_rs11_q10_xs11_q01, check_recv_poll::<1>([1, 1], &[1, 0], [1, 1], &[0, 1]));
inst_t!(recv_drop_c1_rs11_q10_xs11_q01, check_recv_drop::<1>([1, 1], &[1, 0], [1, 1], &[0, 1]));
inst!(send_poll_c1_ss11_q10_xs00_q, check_send_poll::<1>([0, 0], &[], [1, 1], &[1, 0]));
inst!(send_drop_c1_ss11_q10_xs00_q, check_send_drop_or_cancel::<1>([0, 0], &[], [1, 1], &[1, 0]));
inst!(send_poll_c1_ss11_q10_xs10_q0, check_send_poll::<1>([1, 0], &[0], [1, 1], &[1, 0]));
inst_t!(send_drop_c1_ss11_q10_xs10_q0, check_send_drop_or_cancel::<1>([1, 0], &[0], [1, 1], &[1, 0]));
inst_t!(send_poll_c1_ss11_q10_xs20_q, check_send_poll::<1>([2, 0], &[], [1, 1], &[1, 0]));
inst_t!(send_drop_c1_ss11_q10_xs20_q, check_send_drop_or_cancel::<1>([2, 0], &[], [1, 1], &[1, 0]));
inst_t!(send_poll_c1_ss11_q10_xs11_q01, check_send_poll::<1>([1, 1], &[0, 1], [1, 1], &[1, 0]));
inst_t!(send_drop_c1_ss11_q10_xs11_q01, check_send_drop_or_cancel::<1>([1, 1], &[0, 1], [1, 1], &[1, 0]));
inst!(recv_poll_c1_rs12_q0_xs00_q, check_recv_poll::<1>([1, 2], &[0], [0, 0], &[]));
inst!(recv_drop_c1_rs12_q0_xs00_q, check_recv_drop::<1>([1, 2], &[0], [0, 0], &[]));
inst!(recv_poll_c1_rs12_q0_xs10_q0, check_recv_poll::<1>([1, 2], &[0], [1, 0], &[0]));
inst_t!(recv_drop_c1_rs12_q0_xs10_q0, check_recv_drop::<1>([1, 2], &[0], [1, 0], &[0]));
inst_t!(recv_poll_c1_rs12_q0_xs11_q01, check_recv_poll::<1>([1, 2], &[0], [1, 1], &[0, 1]));
inst_t!(recv_drop_c1_rs12_q0_xs11_q01, check_recv_drop::<1>([1, 2], &[0], [1, 1], &[0, 1]));
inst!(send_poll_c1_ss12_q0_xs00_q, check_send_poll::<1>([0, 0], &[], [1, 2], &[0]));
inst!(send_drop_c1_ss12_q0_xs00_q, check_send_drop_or_cancel::<1>([0, 0], &[], [1, 2], &[0]));
inst!(send_poll_c1_ss12_q0_xs10_q0, check_send_poll::<1>([1, 0], &[0], [1, 2], &[0]));
inst_t!(send_drop_c1_ss12_q0_xs10_q0, check_send_drop_or_cancel::<1>([1, 0], &[0], [1, 2], &[0]));
inst_t!(send_poll_c1_ss12_q0_xs20_q, check_send_poll::<1>([2, 0], &[], [1, 2], &[0]));
inst_t!(send_drop_c1_ss12_q0_xs20_q, check_send_drop_or_cancel::<1>([2, 0], &[], [1, 2], &[0]));
inst_t!(send_poll_c1_ss12_q0_xs11_q01, check_send_poll::<1>([1, 1], &[0, 1], [1, 2], &[0]));
inst_t!(send_drop_c1_ss12_q0_xs11_q01, check_send_drop_or_cancel::<1>([1, 1], &[0, 1], [1, 2], &[0]));
inst!(recv_poll_c1_rs13_q0_xs00_q, check_recv_poll::<1>([1, 3], &[0], [0, 0], &[]));
inst!(recv_drop_c1_rs13_q0_xs00_q, check_recv_drop::<1>([1, 3], &[0], [0, 0], &[]));
inst!(recv_poll_c1_rs13_q0_xs10_q0, check_recv_poll::<1>([1, 3], &[0], [1, 0], &[0]));
inst_t!(recv_drop_c1_rs13_q0_xs10_q0, check_recv_drop::<1>([1, 3], &[0], [1, 0], &[0]));
inst_t!(recv_poll_c1_rs13_q0_xs11_q01, check_recv_poll::<1>([1, 3], &[0], [1, 1], &[0, 1]));
inst_t!(recv_drop_c1_rs13_q0_xs11_q01, check_recv_drop::<1>([1, 3], &[0], [1, 1], &[0, 1]));
inst!(send_poll_c1_ss13_q0_xs00_q, check_send_poll::<1>([0, 0], &[], [1, 3], &[0]));
inst!(send_drop_c1_ss13_q0_xs00_q, check_send_drop_or_cancel::<1>([0, 0], &[], [1, 3], &[0]));
inst!(send_poll_c1_ss13_q0_xs10_q0, check_send_poll::<1>([1, 0], &[0], [1, 3], &[0]));
inst_t!(send_drop_c1_ss13_q0_xs10_q0, check_send_drop_or_cancel::<1>([1, 0], &[0], [1, 3], &[0]));
inst_t!(send_poll_c1_ss13_q0_xs20_q, check_send_poll::<1>([2, 0], &[], [1, 3], &[0]));
inst_t!(send_drop_c1_ss13_q0_xs20_q, check_send_drop_or_cancel::<1>([2, 0], &[], [1, 3], &[0]));
inst_t!(send_poll_c1_ss13_q0_xs11_q01, check_send_poll::<1>([1, 1], &[0, 1], [1, 3], &[0]));
inst_t!(send_drop_c1_ss13_q0_xs11_q01, check_send_drop_or_cancel::<1>([1, 1], &[0, 1], [1, 3], &[0]));
inst!(recv_poll_c1_rs20_q_xs00_q, check_recv_poll::<1>([2, 0], &[], [0, 0], &[]));
inst!(recv_drop_c1_rs20_q_xs00_q, check_recv_drop::<1>([2, 0], &[], [0, 0], &[]));
inst!(recv_poll_c1_rs20_q_xs10_q0, check_recv_poll::<1>([2, 0], &[], [1, 0], &[0]));
inst_t!(recv_drop_c1_rs20_q_xs10_q0, check_recv_drop::<1>([2, 0], &[], [1, 0], &[0]));
inst_t!(recv_poll_c1_rs20_q_xs11_q01, check_recv_poll::<1>([2, 0], &[], [1, 1], &[0, 1]));
inst_t!(recv_drop_c1_rs20_q_xs11_q01, check_recv_drop::<1>([2, 0], &[], [1, 1], &[0, 1]));
inst!(send_poll_c1_ss20_q_xs00_q, check_send_poll::<1>([0, 0], &[], [2, 0], &[]));
inst!(send_drop_c1_ss20_q_xs00_q, check_send_drop_or_cancel::<1>([0, 0], &[], [2, 0], &[]));
inst!(send_poll_c1_ss20_q_xs10_q0, check_send_poll::<1>([1, 0], &[0], [2, 0], &[]));
inst_t!(send_drop_c1_ss20_q_xs10_q0, check_send_drop_or_cancel::<1>([1, 0], &[0], [2, 0], &[]));
inst_t!(send_poll_c1_ss20_q_xs20_q, check_send_poll::<1>([2, 0], &[], [2, 0], &[]));
inst_t!(send_drop_c1_ss20_q_xs20_q, check_send_drop_or_cancel::<1>([2, 0], &[], [2, 0], &[]));
inst_t!(send_poll_c1_ss20_q_xs11_q01, check_send_poll::<1>([1, 1], &[0, 1], [2, 0], &[]));
inst_t!(send_drop_c1_ss20_q_xs11_q01, check_send_drop_or_cancel::<1>([1, 1], &[0, 1], [2, 0], &[]));
inst!(recv_poll_c1_rs21_q1_xs00_q, check_recv_poll::<1>([2, 1], &[1], [0, 0], &[]));
inst!(recv_drop_c1_rs21_q1_xs00_q, check_recv_drop::<1>([2, 1], &[1], [0, 0], &[]));
inst!(recv_poll_c1_rs21_q1_xs10_q0, check_recv_poll::<1>([2, 1], &[1], [1, 0], &[0]));
inst_t!(recv_drop_c1_rs21_q1_xs10_q0, check_recv_drop::<1>([2, 1], &[1], [1, 0], &[0]));
inst_t!(recv_poll_c1_rs21_q1_xs11_q01, check_recv_poll::<1>([2, 1], &[1], [1, 1], &[0, 1]));
inst_t!(recv_drop_c1_rs21_q1_xs11_q01, check_recv_drop::<1>([2, 1], &[1], [1, 1], &[0, 1]));
inst!(send_poll_c1_ss21_q1_xs00_q, check_send_poll::<1>([0, 0], &[], [2, 1], &[1]));
inst!(send_drop_c1_ss21_q1_xs00_q, check_send_drop_or_cancel::<1>([0, 0], &[], [2, 1], &[1]));
inst!(send_poll_c1_ss21_q1_xs10_q0, check_send_poll::<1>([1, 0], &[0], [2, 1], &[1]));
inst_t!(send_drop_c1_ss21_q1_xs10_q0, check_send_drop_or_cancel::<1>([1, 0], &[0], [2, 1], &[1]));
inst_t!(send_poll_c1_ss21_q1_xs20_q, check_send_poll::<1>([2, 0], &[], [2, 1], &[1]));
inst_t!(send_drop_c1_ss21_q1_xs20_q, check_send_drop_or_cancel::<1>([2, 0], &[], [2, 1], &[1]));
inst_t!(send_poll_c1_ss21_q1_xs11_q01, check_send_poll::<1>([1, 1], &[0, 1], [2, 1], &[1]));
inst_t!(send_drop_c1_ss21_q1_xs11_q01, check_send_drop_or_cancel::<1>([1, 1], &[0, 1], [2, 1], &[1]));
inst!(recv_poll_c1_rs22_q_xs00_q, check_recv_poll::<1>([2, 2], &[], [0, 0], &[]));
inst!(recv_drop_c1_rs22_q_xs00_q, check_recv_drop::<1>([2, 2], &[], [0, 0], &[]));
inst!(recv_poll_c1_rs22_q_xs10_q0, check_recv_poll::<1>([2, 2], &[], [1, 0], &[0]));
inst_t!(recv_drop_c1_rs22_q_xs10_q0, check_recv_drop::<1>([2, 2], &[], [1, 0], &[0]));
inst_t!(recv_poll_c1_rs22_q_xs11_q01, check_recv_poll::<1>([2, 2], &[], [1, 1], &[0, 1]));
inst_t!(recv_drop_c1_rs22_q_xs11_q01, check_recv_drop::<1>([2, 2], &[], [1, 1], &[0, 1]));
inst!(send_poll_c1_ss22_q_xs00_q, check_send_poll::<1>([0, 0], &[], [2, 2], &[]));
inst!(send_drop_c1_ss22_q_xs00_q, check_send_drop_or_cancel::<1>([0, 0], &[], [2, 2], &[]));
inst!(send_poll_c1_ss22_q_xs10_q0, check_send_poll::<1>([1, 0], &[0], [2, 2], &[]));
inst_t!(send_drop_c1_ss22_q_xs10_q0, check_send_drop_or_cancel::<1>([1, 0], &[0], [2, 2], &[]));
inst_t!(send_poll_c1_ss22_q_xs20_q, check_send_poll::<1>([2, 0], &[], [2, 2], &[]));
inst_t!(send_drop_c1_ss22_q_xs20_q, check_send_drop_or_cancel::<1>([2, 0], &[], [2, 2], &[]));
inst_t!(send_poll_c1_ss22_q_xs11_q01, check_send_poll::<1>([1, 1], &[0, 1], [2, 2], &[]));
inst_t!(send_drop_c1_ss22_q_xs11_q01, check_send_drop_or_cancel::<1>([1, 1], &[0, 1], [2, 2], &[]));
inst!(recv_poll_c1_rs23_q_xs00_q, check_recv_poll::<1>([2, 3], &[], [0, 0], &[]));
inst!(recv_drop_c1_rs23_q_xs00_q, check_recv_drop::<1>([2, 3], &[], [0, 0], &[]));
inst!(recv_poll_c1_rs23_q_xs10_q0, check_recv_poll::<1>([2, 3], &[], [1, 0], &[0]));
inst_t!(recv_drop_c1_rs23_q_xs10_q0, check_recv_drop::<1>([2, 3], &[], [1, 0], &[0]));
inst_t!(recv_poll_c1_rs23_q_xs11_q01, check_recv_poll::<1>([2, 3], &[], [1, 1], &[0, 1]));
inst_t!(recv_drop_c1_rs23_q_xs11_q01, check_recv_drop::<1>([2, 3], &[], [1, 1], &[0, 1]));
inst!(send_poll_c1_ss23_q_xs00_q, check_send_poll::<1>([0, 0], &[], [2, 3], &[]));
inst!(send_drop_c1_ss23_q_xs00_q, check_send_drop_or_cancel::<1>([0, 0], &[], [2, 3], &[]));
inst!(send_poll_c1_ss23_q_xs10_q0, check_send_poll::<1>([1, 0], &[0], [2, 3], &[]));
inst_t!(send_drop_c1_ss23_q_xs10_q0, check_send_drop_or_cancel::<1>([1, 0], &[0], [2, 3], &[]));
inst_t!(send_poll_c1_ss23_q_xs20_q, check_send_poll::<1>([2, 0], &[], [2, 3], &[]));
inst_t!(send_drop_c1_ss23_q_xs20_q, check_send_drop_or_cancel::<1>([2, 0], &[], [2, 3], &[]));
inst_t!(send_poll_c1_ss23_q_xs11_q01, check_send_poll::<1>([1, 1], &[0, 1], [2, 3], &[]));
inst_t!(send_drop_c1_ss23_q_xs11_q01, check_send_drop_or_cancel::<1>([1, 1], &[0, 1], [2, 3], &[]));
inst!(recv_drop_c1_rs30_q_xs00_q, check_recv_drop::<1>([3, 0], &[], [0, 0], &[]));
inst_t!(recv_drop_c1_rs30_q_xs10_q0, check_recv_drop::<1>([3, 0], &[], [1, 0], &[0]));
inst_t!(recv_drop_c1_rs30_q_xs11_q01, check_recv_drop::<1>([3, 0], &[], [1, 1], &[0, 1]));
inst!(send_drop_c1_ss30_q_xs00_q, check_send_drop_or_cancel::<1>([0, 0], &[], [3, 0], &[]));
inst_t!(send_drop_c1_ss30_q_xs10_q0, check_send_drop_or_cancel::<1>([1, 0], &[0], [3, 0], &[]));
inst_t!(send_drop_c1_ss30_q_xs20_q, check_send_drop_or_cancel::<1>([2, 0], &[], [3, 0], &[]));
inst_t!(send_drop_c1_ss30_q_xs11_q01, check_send_drop_or_cancel::<1>([1, 1], &[0, 1], [3, 0], &[]));
inst!(recv_drop_c1_rs31_q1_xs00_q, check_recv_drop::<1>([3, 1], &[1], [0, 0], &[]));
inst_t!(recv_drop_c1_rs31_q1_xs10_q0, check_recv_drop::<1>([3, 1], &[1], [1, 0], &[0]));
inst_t!(recv_drop_c1_rs31_q1_xs11_q01, check_recv_drop::<1>([3, 1], &[1], [1, 1], &[0, 1]));
inst!(send_drop_c1_ss31_q1_xs00_q, check_send_drop_or_cancel::<1>([0, 0], &[], [3, 1], &[1]));
inst_t!(send_drop_c1_ss31_q1_xs10_q0, check_send_drop_or_cancel::<1>([1, 0], &[0], [3, 1], &[1]));
inst_t!(send_drop_c1_ss31_q1_xs20_q, check_send_drop_or_cancel::<1>([2, 0], &[], [3, 1], &[1]));
inst_t!(send_drop_c1_ss31_q1_xs11_q01, check_send_drop_or_cancel::<1>([1, 1], &[0, 1], [3, 1], &[1]));
inst!(recv_drop_c1_rs32_q_xs00_q, check_recv_drop::<1>([3, 2], &[], [0, 0], &[]));
inst_t!(recv_drop_c1_rs32_q_xs10_q0, check_recv_drop::<1>([3, 2], &[], [1, 0], &[0]));
inst_t!(recv_drop_c1_rs32_q_xs11_q01, check_recv_drop::<1>([3, 2], &[], [1, 1], &[0, 1]));
inst!(send_drop_c1_ss32_q_xs00_q, check_send_drop_or_cancel::<1>([0, 0], &[], [3, 2], &[]));
inst_t!(send_drop_c1_ss32_q_xs10_q0, check_send_drop_or_cancel::<1>([1, 0], &[0], [3, 2], &[]));
inst_t!(send_drop_c1_ss32_q_xs20_q, check_send_drop_or_cancel::<1>([2, 0], &[], [3, 2], &[]));
inst_t!(send_drop_c1_ss32_q_xs11_q01, check_send_drop_or_cancel::<1>([1, 1], &[0, 1], [3, 2], &[]));
inst!(recv_drop_c1_rs33_q_xs00_q, check_recv_drop::<1>([3, 3], &[], [0, 0], &[]));
inst_t!(recv_drop_c1_rs33_q_xs10_q0, check_recv_drop::<1>([3, 3], &[], [1, 0], &[0]));
inst_t!(recv_drop_c1_rs33_q_xs11_q01, check_recv_drop::<1>([3, 3], &[], [1, 1], &[0, 1]));
inst!(send_drop_c1_ss33_q_xs00_q, check_send_drop_or_cancel::<1>([0, 0], &[], [3, 3], &[]));
inst_t!(send_drop_c1_ss33_q_xs10_q0, check_send_drop_or_cancel::<1>([1, 0], &[0], [3, 3], &[]));
inst_t!(send_drop_c1_ss33_q_xs20_q, check_send_drop_or_cancel::<1>([2, 0], &[], [3, 3], &[]));
inst_t!(send_drop_c1_ss33_q_xs11_q01, check_send_drop_or_cancel::<1>([1, 1], &[0, 1], [3, 3], &[]));
inst!(try_send_c1_rs00_q_ss00_q, check_try_send::<1>([0, 0], &[], [0, 0], &[]));
inst_t!(try_send_c1_rs00_q_ss10_q0, check_try_send::<1>([0, 0], &[], [1, 0], &[0]));
inst!(try_send_c1_rs00_q_ss11_q01, check_try_send::<1>([0, 0], &[], [1, 1], &[0, 1]));
inst_t!(try_send_c1_rs10_q0_ss00_q, check_try_send::<1>([1, 0], &[0], [0, 0], &[]));
inst_t!(try_send_c1_rs10_q0_ss10_q0, check_try_send::<1>([1, 0], &[0], [1, 0], &[0]));
inst_t!(try_send_c1_rs10_q0_ss11_q01, check_try_send::<1>([1, 0], &[0], [1, 1], &[0, 1]));
inst_t!(try_send_c1_rs20_q_ss00_q, check_try_send::<1>([2, 0], &[], [0, 0], &[]));
inst_t!(try_send_c1_rs20_q_ss10_q0, check_try_send::<1>([2, 0], &[], [1, 0], &[0]));
inst_t!(try_send_c1_rs20_q_ss11_q01, check_try_send::<1>([2, 0], &[], [1, 1], &[0, 1]));
inst!(try_send_c1_rs11_q01_ss00_q, check_try_send::<1>([1, 1], &[0, 1], [0, 0], &[]));
inst_t!(try_send_c1_rs11_q01_ss10_q0, check_try_send::<1>([1, 1], &[0, 1], [1, 0], &[0]));
inst!(try_send_c1_rs11_q01_ss11_q01, check_try_send::<1>([1, 1], &[0, 1], [1, 1], &[0, 1]));
inst!(try_receive_c1_rs00_q_ss00_q, check_try_receive::<1>([0, 0], &[], [0, 0], &[]));
inst_t!(try_receive_c1_rs00_q_ss10_q0, check_try_receive::<1>([0, 0], &[], [1, 0], &[0]));
inst!(try_receive_c1_rs00_q_ss11_q01, check_try_receive::<1>([0, 0], &[], [1, 1], &[0, 1]));
inst_t!(try_receive_c1_rs10_q0_ss00_q, check_try_receive::<1>([1, 0], &[0], [0, 0], &[]));
inst_t!(try_receive_c1_rs10_q0_ss10_q0, check_try_receive::<1>([1, 0], &[0], [1, 0], &[0]));
inst_t!(try_receive_c1_rs10_q0_ss11_q01, check_try_receive::<1>([1, 0], &[0], [1, 1], &[0, 1]));
inst_t!(try_receive_c1_rs20_q_ss00_q, check_try_receive::<1>([2, 0], &[], [0, 0], &[]));
inst_t!(try_receive_c1_rs20_q_ss10_q0, check_try_receive::<1>([2, 0], &[], [1, 0], &[0]));
inst_t!(try_receive_c1_rs20_q_ss11_q01, check_try_receive::<1>([2, 0], &[], [1, 1], &[0, 1]));
inst!(try_receive_c1_rs11_q01_ss00_q, check_try_receive::<1>([1, 1], &[0, 1], [0, 0], &[]));
inst_t!(try_receive_c1_rs11_q01_ss10_q0, check_try_receive::<1>([1, 1], &[0, 1], [1, 0], &[0]));
inst!(try_receive_c1_rs11_q01_ss11_q01, check_try_receive::<1>([1, 1], &[0, 1], [1, 1], &[0, 1]));
inst!(close_c1_rs00_q_ss00_q, check_close::<1>([0, 0], &[], [0, 0], &[]));
inst_t!(close_c1_rs00_q_ss10_q0, check_close::<1>([0, 0], &[], [1, 0], &[0]));
inst!(close_c1_rs00_q_ss11_q01, check_close::<1>([0, 0], &[], [1, 1], &[0, 1]));
inst_t!(close_c1_rs10_q0_ss00_q, check_close::<1>([1, 0], &[0], [0, 0], &[]));
inst_t!(close_c1_rs10_q0_ss10_q0, check_close::<1>([1, 0], &[0], [1, 0], &[0]));
inst_t!(close_c1_rs10_q0_ss11_q01, check_close::<1>([1, 0], &[0], [1, 1], &[0, 1]));
inst_t!(close_c1_rs20_q_ss00_q, check_close::<1>([2, 0], &[], [0, 0], &[]));
inst_t!(close_c1_rs20_q_ss10_q0, check_close::<1>([2, 0], &[], [1, 0], &[0]));
inst_t!(close_c1_rs20_q_ss11_q01, check_close::<1>([2, 0], &[], [1, 1], &[0, 1]));
inst!(close_c1_rs11_q01_ss00_q, check_close::<1>([1, 1], &[0, 1], [0, 0], &[]));
inst_t!(close_c1_rs11_q01_ss10_q0, check_close::<1>([1, 1], &[0, 1], [1, 0], &[0]));
inst!(close_c1_rs11_q01_ss11_q01, check_close::<1>([1, 1], &[0, 1], [1, 1], &[0, 1]));
inst_t!(stream_c1_rs00_q_ss00_q, check_stream::<1>([0, 0], &[], [0, 0], &[]));
inst_t!(stream_c1_rs00_q_ss10_q0, check_stream::<1>([0, 0], &[], [1, 0], &[0]));
inst!(stream_c1_rs00_q_ss11_q01, check_stream::<1>([0, 0], &[], [1, 1], &[0, 1]));
inst_t!(stream_c1_rs10_q0_ss00_q, check_stream::<1>([1, 0], &[0], [0, 0], &[]));
inst_t!(stream_c1_rs10_q0_ss10_q0, check_stream::<1>([1, 0], &[0], [1, 0], &[0]));
inst_t!(stream_c1_rs10_q0_ss11_q01, check_stream::<1>([1, 0], &[0], [1, 1], &[0, 1]));
inst_t!(stream_c1_rs20_q_ss00_q, check_stream::<1>([2, 0], &[], [0, 0], &[]));
inst_t!(stream_c1_rs20_q_ss10_q0, check_stream::<1>([2, 0], &[], [1, 0], &[0]));
inst_t!(stream_c1_rs20_q_ss11_q01, check_stream::<1>([2, 0], &[], [1, 1], &[0, 1]));
// (stream_c1_rs11_q01_ss00_q -- two receivers queued, stream pending and then dropped, three queued nodes -- exceeds 40 GB in CBMC: not run)
inst_t!(stream_c1_rs11_q01_ss10_q0, check_stream::<1>([1, 1], &[0, 1], [1, 0], &[0]));
inst_t!(stream_c1_rs11_q01_ss11_q01, check_stream::<1>([1, 1], &[0, 1], [1, 1], &[0, 1]));
inst_t!(recv_poll_c0_rs00_q_xs00_q, check_recv_poll::<0>([0, 0], &[], [0, 0], &[]));
inst_t!(recv_drop_c0_rs00_q_xs00_q, check_recv_drop::<0>([0, 0], &[], [0, 0], &[]));
inst!(recv_poll_c0_rs00_q_xs10_q0, check_recv_poll::<0>([0, 0], &[], [1, 0], &[0]));
inst_t!(recv_drop_c0_rs00_q_xs10_q0, check_recv_drop::<0>([0, 0], &[], [1, 0], &[0]));
inst_t!(recv_poll_c0_rs00_q_xs11_q01, check_recv_poll::<0>([0, 0], &[], [1, 1], &[0, 1]));
inst_t!(recv_drop_c0_rs00_q_xs11_q01, check_recv_drop::<0>([0, 0], &[], [1, 1], &[0, 1]));
inst_t!(send_poll_c0_ss00_q_xs00_q, check_send_poll::<0>([0, 0], &[], [0, 0], &[]));
inst_t!(send_drop_c0_ss00_q_xs00_q, check_send_drop_or_cancel::<0>([0, 0], &[], [0, 0], &[]));
inst!(send_poll_c0_ss00_q_xs10_q0, check_send_poll::<0>([1, 0], &[0], [0, 0], &[]));
inst_t!(send_drop_c0_ss00_q_xs10_q0, check_send_drop_or_cancel::<0>([1, 0], &[0], [0, 0], &[]));
inst_t!(send_poll_c0_ss00_q_xs20_q, check_send_poll::<0>([2, 0], &[], [0, 0], &[]));
inst_t!(send_drop_c0_ss00_q_xs20_q, check_send_drop_or_cancel::<0>([2, 0], &[], [0, 0], &[]));
inst_t!(send_poll_c0_ss00_q_xs11_q01, check_send_poll::<0>([1, 1], &[0, 1], [0, 0], &[]));
inst_t!(send_drop_c0_ss00_q_xs11_q01, check_send_drop_or_cancel::<0>([1, 1], &[0, 1], [0, 0], &[]));
inst_t!(recv_poll_c0_rs01_q1_xs00_q, check_recv_poll::<0>([0, 1], &[1], [0, 0], &[]));
inst_t!(recv_drop_c0_rs01_q1_xs00_q, check_recv_drop::<0>([0, 1], &[1], [0, 0], &[]));
inst!(recv_poll_c0_rs01_q1_xs10_q0, check_recv_poll::<0>([0, 1], &[1], [1, 0], &[0]));
inst_t!(recv_drop_c0_rs01_q1_xs10_q0, check_recv_drop::<0>([0, 1], &[1], [1, 0], &[0]));
inst_t!(recv_poll_c0_rs01_q1_xs11_q01, check_recv_poll::<0>([0, 1], &[1], [1, 1], &[0, 1]));
inst_t!(recv_drop_c0_rs01_q1_xs11_q01, check_recv_drop::<0>([0, 1], &[1], [1, 1], &[0, 1]));
inst_t!(send_poll_c0_ss01_q1_xs00_q, check_send_poll::<0>([0, 0], &[], [0, 1], &[1]));
inst_t!(send_drop_c0_ss01_q1_xs00_q, check_send_drop_or_cancel::<0>([0, 0], &[], [0, 1], &[1]));
inst!(send_poll_c0_ss01_q1_xs10_q0, check_send_poll::<0>([1, 0], &[0], [0, 1], &[1]));
inst_t!(send_drop_c0_ss01_q1_xs10_q0, check_send_drop_or_cancel::<0>([1, 0], &[0], [0, 1], &[1]));
inst_t!(send_poll_c0_ss01_q1_xs20_q, check_send_poll::<0>([2, 0], &[], [0, 1], &[1]));
inst_t!(send_drop_c0_ss01_q1_xs20_q, check_send_drop_or_cancel::<0>([2, 0], &[], [0, 1], &[1]));
inst_t!(send_poll_c0_ss01_q1_xs11_q01, check_send_poll::<0>([1, 1], &[0, 1], [0, 1], &[1]));
inst_t!(send_drop_c0_ss01_q1_xs11_q01, check_send_drop_or_cancel::<0>([1, 1], &[0, 1], [0, 1], &[1]));
inst_t!(recv_poll_c0_rs02_q_xs00_q, check_recv_poll::<0>([0, 2], &[], [0, 0], &[]));
inst_t!(recv_drop_c0_rs02_q_xs00_q, check_recv_drop::<0>([0, 2], &[], [0, 0], &[]));
inst!(recv_poll_c0_rs02_q_xs10_q0, check_recv_poll::<0>([0, 2], &[], [1, 0], &[0]));
inst_t!(recv_drop_c0_rs02_q_xs10_q0, check_recv_drop::<0>([0, 2], &[], [1, 0], &[0]));
inst_t!(recv_poll_c0_rs02_q_xs11_q01, check_recv_poll::<0>([0, 2], &[], [1, 1], &[0, 1]));
inst_t!(recv_drop_c0_rs02_q_xs11_q01, check_recv_drop::<0>([0, 2], &[], [1, 1], &[0, 1]));
inst_t!(send_poll_c0_ss02_q_xs00_q, check_send_poll::<0>([0, 0], &[], [0, 2], &[]));
inst_t!(send_drop_c0_ss02_q_xs00_q, check_send_drop_or_cancel::<0>([0, 0], &[], [0, 2], &[]));
inst!(send_poll_c0_ss02_q_xs10_q0, check_send_poll::<0>([1, 0], &[0], [0, 2], &[]));
inst_t!(send_drop_c0_ss02_q_xs10_q0, check_send_drop_or_cancel::<0>([1, 0], &[0], [0, 2], &[]));
inst_t!(send_poll_c0_ss02_q_xs20_q, check_send_poll::<0>([2, 0], &[], [0, 2], &[]));
inst_t!(send_drop_c0_ss02_q_xs20_q, check_send_drop_or_cancel::<0>([2, 0], &[], [0, 2], &[]));
inst_t!(send_poll_c0_ss02_q_xs11_q01, check_send_poll::<0>([1, 1], &[0, 1], [0, 2], &[]));
inst_t!(send_drop_c0_ss02_q_xs11_q01, check_send_drop_or_cancel::<0>([1, 1], &[0, 1], [0, 2], &[]));
inst_t!(recv_poll_c0_rs03_q_xs00_q, check_recv_poll::<0>([0, 3], &[], [0, 0], &[]));
inst_t!(recv_drop_c0_rs03_q_xs00_q, check_recv_drop::<0>([0, 3], &[], [0, 0], &[]));
inst!(recv_poll_c0_rs03_q_xs10_q0, check_recv_poll::<0>([0, 3], &[], [1, 0], &[0]));
inst_t!(recv_drop_c0_rs03_q_xs10_q0, check_recv_drop::<0>([0, 3], &[], [1, 0], &[0]));
inst_t!(recv_poll_c0_rs03_q_xs11_q01, check_recv_poll::<0>([0, 3], &[], [1, 1], &[0, 1]));
inst_t!(recv_drop_c0_rs03_q_xs11_q01, check_recv_drop::<0>([0, 3], &[], [1, 1], &[0, 1]));
inst_t!(send_poll_c0_ss03_q_xs00_q, check_send_poll::<0>([0, 0], &[], [0, 3], &[]));
inst_t!(send_drop_c0_ss03_q_xs00_q, check_send_drop_or_cancel::<0>([0, 0], &[], [0, 3], &[]));
inst!(send_poll_c0_ss03_q_xs10_q0, check_send_poll::<0>([1, 0], &[0], [0, 3], &[]));
inst_t!(send_drop_c0_ss03_q_xs10_q0, check_send_drop_or_cancel::<0>([1, 0], &[0], [0, 3], &[]));
inst_t!(send_poll_c0_ss03_q_xs20_q, check_send_poll::<0>([2, 0], &[], [0, 3], &[]));
inst_t!(send_drop_c0_ss03_q_xs20_q, check_send_drop_or_cancel::<0>([2, 0], &[], [0, 3], &[]));
inst_t!(send_poll_c0_ss03_q_xs11_q01, check_send_poll::<0>([1, 1], &[0, 1], [0, 3], &[]));
inst_t!(send_drop_c0_ss03_q_xs11_q01, check_send_drop_or_cancel::<0>([1, 1], &[0, 1], [0, 3], &[]));
inst_t!(recv_poll_c0_rs10_q0_xs00_q, check_recv_poll::<0>([1, 0], &[0], [0, 0], &[]));
inst_t!(recv_drop_c0_rs10_q0_xs00_q, check_recv_drop::<0>([1, 0], &[0], [0, 0], &[]));
inst!(recv_poll_c0_rs10_q0_xs10_q0, check_recv_poll::<0>([1, 0], &[0], [1, 0], &[0]));
inst_t!(recv_drop_c0_rs10_q0_xs10_q0, check_recv_drop::<0>([1, 0], &[0], [1, 0], &[0]));
inst_t!(recv_poll_c0_rs10_q0_xs11_q01, check_recv_poll::<0>([1, 0], &[0], [1, 1], &[0, 1]));
inst_t!(recv_drop_c0_rs10_q0_xs11_q01, check_recv_drop::<0>([1, 0], &[0], [1, 1], &[0, 1]));
inst_t!(send_poll_c0_ss10_q0_xs00_q, check_send_poll::<0>([0, 0], &[], [1, 0], &[0]));
inst_t!(send_drop_c0_ss10_q0_xs00_q, check_send_drop_or_cancel::<0>([0, 0], &[], [1, 0], &[0]));
inst!(send_poll_c0_ss10_q0_xs10_q0, check_send_poll::<0>([1, 0], &[0], [1, 0], &[0]));
inst_t!(send_drop_c0_ss10_q0_xs10_q0, check_send_drop_or_cancel::<0>([1, 0], &[0], [1, 0], &[0]));
inst_t!(send_poll_c0_ss10_q0_xs20_q, check_send_poll::<0>([2, 0], &[], [1, 0], &[0]));
inst_t!(send_drop_c0_ss10_q0_xs20_q, check_send_drop_or_cancel::<0>([2, 0], &[], [1, 0], &[0]));
inst_t!(send_poll_c0_ss10_q0_xs11_q01, check_send_poll::<0>([1, 1], &[0, 1], [1, 0], &[0]));
inst_t!(send_drop_c0_ss10_q0_xs11_q01, check_send_drop_or_cancel::<0>([1, 1], &[0, 1], [1, 0], &[0]));
inst_t!(recv_poll_c0_rs11_q01_xs00_q, check_recv_poll::<0>([1, 1], &[0, 1], [0, 0], &[]));
inst_t!(recv_drop_c0_rs11_q01_xs00_q, check_recv_drop::<0>([1, 1], &[0, 1], [0, 0], &[]));
inst!(recv_poll_c0_rs11_q01_xs10_q0, check_recv_poll::<0>([1, 1], &[0, 1], [1, 0], &[0]));
inst_t!(recv_drop_c0_rs11_q01_xs10_q0, check_recv_drop::<0>([1, 1], &[0, 1], [1, 0], &[0]));
inst_t!(recv_poll_c0_rs11_q01_xs11_q01, check_recv_poll::<0>([1, 1], &[0, 1], [1, 1], &[0, 1]));
inst_t!(recv_drop_c0_rs11_q01_xs11_q01, check_recv_drop::<0>([1, 1], &[0, 1], [1, 1], &[0, 1]));
inst_t!(send_poll_c0_ss11_q01_xs00_q, check_send_poll::<0>([0, 0], &[], [1, 1], &[0, 1]));
inst_t!(send_drop_c0_ss11_q01_xs00_q, check_send_drop_or_cancel::<0>([0, 0], &[], [1, 1], &[0, 1]));
inst!(send_poll_c0_ss11_q01_xs10_q0, check_send_poll::<0>([1, 0], &[0], [1, 1], &[0, 1]));
inst_t!(send_drop_c0_ss11_q01_xs10_q0, check_send_drop_or_cancel::<0>([1, 0], &[0], [1, 1], &[0, 1]));
inst_t!(send_poll_c0_ss11_q01_xs20_q, check_send_poll::<0>([2, 0], &[], [1, 1], &[0, 1]));
inst_t!(send_drop_c0_ss11_q01_xs20_q, check_send_drop_or_cancel::<0>([2, 0], &[], [1, 1], &[0, 1]));
inst_t!(send_poll_c0_ss11_q01_xs11_q01, check_send_poll::<0>([1, 1], &[0, 1], [1, 1], &[0, 1]));
inst_t!(send_drop_c0_ss11_q01_xs11_q01, check_send_drop_or_cancel::<0>([1, 1], &[0, 1], [1, 1], &[0, 1]));
inst_t!(recv_poll_c0_rs11_q10_xs00_q, check_recv_poll::<0>([1, 1], &[1, 0], [0, 0], &[]));
inst_t!(recv_drop_c0_rs11_q10_xs00_q, check_recv_drop::<0>([1, 1], &[1, 0], [0, 0], &[]));
inst!(recv_poll_c0_rs11_q10_xs10_q0, check_recv_poll::<0>([1, 1], &[1, 0], [1, 0], &[0]));
inst_t!(recv_drop_c0_rs11_q10_xs10_q0, check_recv_drop::<0>([1, 1], &[1, 0], [1, 0], &[0]));
inst_t!(recv_poll_c0_rs11_q10_xs11_q01, check_recv_poll::<0>([1, 1], &[1, 0], [1, 1], &[0, 1]));
inst_t!(recv_drop_c0_rs11_q10_xs11_q01, check_recv_drop::<0>([1, 1], &[1, 0], [1, 1], &[0, 1]));
inst_t!(send_poll_c0_ss11_q10_xs00_q, check_send_poll::<0>([0, 0], &[], [1, 1], &[1, 0]));
inst_t!(send_drop_c0_ss11_q10_xs00_q, check_send_drop_or_cancel::<0>([0, 0], &[], [1, 1], &[1, 0]));
inst!(send_poll_c0_ss11_q10_xs10_q0, check_send_poll::<0>([1, 0], &[0], [1, 1], &[1, 0]));
inst_t!(send_drop_c0_ss11_q10_xs10_q0, check_send_drop_or_cancel::<0>([1, 0], &[0], [1, 1], &[1, 0]));
inst_t!(send_poll_c0_ss11_q10_xs20_q, check_send_poll::<0>([2, 0], &[], [1, 1], &[1, 0]));
inst_t!(send_drop_c0_ss11_q10_xs20_q, check_send_drop_or_cancel::<0>([2, 0], &[], [1, 1], &[1, 0]));
inst_t!(send_poll_c0_ss11_q10_xs11_q01, check_send_poll::<0>([1, 1], &[0, 1], [1, 1], &[1, 0]));
inst_t!(send_drop_c0_ss11_q10_xs11_q01, check_send_drop_or_cancel::<0>([1, 1], &[0, 1], [1, 1], &[1, 0]));
inst_t!(recv_poll_c0_rs12_q0_xs00_q, check_recv_poll::<0>([1, 2], &[0], [0, 0], &[]));
inst_t!(recv_drop_c0_rs12_q0_xs00_q, check_recv_drop::<0>([1, 2], &[0], [0, 0], &[]));
inst!(recv_poll_c0_rs12_q0_xs10_q0, check_recv_poll::<0>([1, 2], &[0], [1, 0], &[0]));
inst_t!(recv_drop_c0_rs12_q0_xs10_q0, check_recv_drop::<0>([1, 2], &[0], [1, 0], &[0]));
inst_t!(recv_poll_c0_rs12_q0_xs11_q01, check_recv_poll::<0>([1, 2], &[0], [1, 1], &[0, 1]));
inst_t!(recv_drop_c0_rs12_q0_xs11_q01, check_recv_drop::<0>([1, 2], &[0], [1, 1], &[0, 1]));
inst_t!(send_poll_c0_ss12_q0_xs00_q, check_send_poll::<0>([0, 0], &[], [1, 2], &[0]));
inst_t!(send_drop_c0_ss12_q0_xs00_q, check_send_drop_or_cancel::<0>([0, 0], &[], [1, 2], &[0]));
inst!(send_poll_c0_ss12_q0_xs10_q0, check_send_poll::<0>([1, 0], &[0], [1, 2], &[0]));
inst_t!(send_drop_c0_ss12_q0_xs10_q0, check_send_drop_or_cancel::<0>([1, 0], &[0], [1, 2], &[0]));
inst_t!(send_poll_c0_ss12_q0_xs20_q, check_send_poll::<0>([2, 0], &[], [1, 2], &[0]));
inst_t!(send_drop_c0_ss12_q0_xs20_q, check_send_drop_or_cancel::<0>([2, 0], &[], [1, 2], &[0]));
inst_t!(send_poll_c0_ss12_q0_xs11_q01, check_send_poll::<0>([1, 1], &[0, 1], [1, 2], &[0]));
inst_t!(send_drop_c0_ss12_q0_xs11_q01, check_send_drop_or_cancel::<0>([1, 1], &[0, 1], [1, 2], &[0]));
inst_t!(recv_poll_c0_rs13_q0_xs00_q, check_recv_poll::<0>([1, 3], &[0], [0, 0], &[]));
inst_t!(recv_drop_c0_rs13_q0_xs00_q, check_recv_drop::<0>([1, 3], &[0], [0, 0], &[]));
inst!(recv_poll_c0_rs13_q0_xs10_q0, check_recv_poll::<0>([1, 3], &[0], [1, 0], &[0]));
inst_t!(recv_drop_c0_rs13_q0_xs10_q0, check_recv_drop::<0>([1, 3], &[0], [1, 0], &[0]));
inst_t!(recv_poll_c0_rs13_q0_xs11_q01, check_recv_poll::<0>([1, 3], &[0], [1, 1], &[0, 1]));
inst_t!(recv_drop_c0_rs13_q0_xs11_q01, check_recv_drop::<0>([1, 3], &[0], [1, 1], &[0, 1]));
inst_t!(send_poll_c0_ss13_q0_xs00_q, check_send_poll::<0>([0, 0], &[], [1, 3], &[0]));
inst_t!(send_drop_c0_ss13_q0_xs00_q, check_send_drop_or_cancel::<0>([0, 0], &[], [1, 3], &[0]));
inst!(send_poll_c0_ss13_q0_xs10_q0, check_send_poll::<0>([1, 0], &[0], [1, 3], &[0]));
inst_t!(send_drop_c0_ss13_q0_xs10_q0, check_send_drop_or_cancel::<0>([1, 0], &[0], [1, 3], &[0]));
inst_t!(send_poll_c0_ss13_q0_xs20_q, check_send_poll::<0>([2, 0], &[], [1, 3], &[0]));
inst_t!(send_drop_c0_ss13_q0_xs20_q, check_send_drop_or_cancel::<0>([2, 0], &[], [1, 3], &[0]));
inst_t!(send_poll_c0_ss13_q0_xs11_q01, check_send_poll::<0>([1, 1], &[0, 1], [1, 3], &[0]));
inst_t!(send_drop_c0_ss13_q0_xs11_q01, check_send_drop_or_cancel::<0>([1, 1], &[0, 1], [1, 3], &[0]));
inst_t!(recv_poll_c0_rs20_q_xs00_q, check_recv_poll::<0>([2, 0], &[], [0, 0], &[]));
inst_t!(recv_drop_c0_rs20_q_xs00_q, check_recv_drop::<0>([2, 0], &[], [0, 0], &[]));
inst!(recv_poll_c0_rs20_q_xs10_q0, check_recv_poll::<0>([2, 0], &[], [1, 0], &[0]));
inst_t!(recv_drop_c0_rs20_q_xs10_q0, check_recv_drop::<0>([2, 0], &[], [1, 0], &[0]));
inst_t!(recv_poll_c0_rs20_q_xs11_q01, check_recv_poll::<0>([2, 0], &[], [1, 1], &[0, 1]));
inst_t!(recv_drop_c0_rs20_q_xs11_q01, check_recv_drop::<0>([2, 0], &[], [1, 1], &[0, 1]));
inst_t!(send_poll_c0_ss20_q_xs00_q, check_send_poll::<0>([0, 0], &[], [2, 0], &[]));
inst_t!(send_drop_c0_ss20_q_xs00_q, check_send_drop_or_cancel::<0>([0, 0], &[], [2, 0], &[]));
inst!(send_poll_c0_ss20_q_xs10_q0, check_send_poll::<0>([1, 0], &[0], [2, 0], &[]));
inst_t!(send_drop_c0_ss20_q_xs10_q0, check_send_drop_or_cancel::<0>([1, 0], &[0], [2, 0], &[]));
inst_t!(send_poll_c0_ss20_q_xs20_q, check_send_poll::<0>([2, 0], &[], [2, 0], &[]));
inst_t!(send_drop_c0_ss20_q_xs20_q, check_send_drop_or_cancel::<0>([2, 0], &[], [2, 0], &[]));
inst_t!(send_poll_c0_ss20_q_xs11_q01, check_send_poll::<0>([1, 1], &[0, 1], [2, 0], &[]));
inst_t!(send_drop_c0_ss20_q_xs11_q01, check_send_drop_or_cancel::<0>([1, 1], &[0, 1], [2, 0], &[]));
inst_t!(recv_poll_c0_rs21_q1_xs00_q, check_recv_poll::<0>([2, 1], &[1], [0, 0], &[]));
inst_t!(recv_drop_c0_rs21_q1_xs00_q, check_recv_drop::<0>([2, 1], &[1], [0, 0], &[]));
inst!(recv_poll_c0_rs21_q1_xs10_q0, check_recv_poll::<0>([2, 1], &[1], [1, 0], &[0]));
inst_t!(recv_drop_c0_rs21_q1_xs10_q0, check_recv_drop::<0>([2, 1], &[1], [1, 0], &[0]));
inst_t!(recv_poll_c0_rs21_q1_xs11_q01, check_recv_poll::<0>([2, 1], &[1], [1, 1], &[0, 1]));
inst_t!(recv_drop_c0_rs21_q1_xs11_q01, check_recv_drop::<0>([2, 1], &[1], [1, 1], &[0, 1]));
inst_t!(send_poll_c0_ss21_q1_xs00_q, check_send_poll::<0>([0, 0], &[], [2, 1], &[1]));
inst_t!(send_drop_c0_ss21_q1_xs00_q, check_send_drop_or_cancel::<0>([0, 0], &[], [2, 1], &[1]));
inst!(send_poll_c0_ss21_q1_xs10_q0, check_send_poll::<0>([1, 0], &[0], [2, 1], &[1]));
inst_t!(send_drop_c0_ss21_q1_xs10_q0, check_send_drop_or_cancel::<0>([1, 0], &[0], [2, 1], &[1]));
inst_t!(send_poll_c0_ss21_q1_xs20_q, check_send_poll::<0>([2, 0], &[], [2, 1], &[1]));
inst_t!(send_drop_c0_ss21_q1_xs20_q, check_send_drop_or_cancel::<0>([2, 0], &[], [2, 1], &[1]));
inst_t!(send_poll_c0_ss21_q1_xs11_q01, check_send_poll::<0>([1, 1], &[0, 1], [2, 1], &[1]));
inst_t!(send_drop_c0_ss21_q1_xs11_q01, check_send_drop_or_cancel::<0>([1, 1], &[0, 1], [2, 1], &[1]));
inst_t!(recv_poll_c0_rs22_q_xs00_q, check_recv_poll::<0>([2, 2], &[], [0, 0], &[]));
inst_t!(recv_drop_c0_rs22_q_xs00_q, check_recv_drop::<0>([2, 2], &[], [0, 0], &[]));
inst!(recv_poll_c0_rs22_q_xs10_q0, check_recv_poll::<0>([2, 2], &[], [1, 0], &[0]));
inst_t!(recv_drop_c0_rs22_q_xs10_q0, check_recv_drop::<0>([2, 2], &[], [1, 0], &[0]));
inst_t!(recv_poll_c0_rs22_q_xs11_q01, check_recv_poll::<0>([2, 2], &[], [1, 1], &[0, 1]));
inst_t!(recv_drop_c0_rs22_q_xs11_q01, check_recv_drop::<0>([2, 2], &[], [1, 1], &[0, 1]));
inst_t!(send_poll_c0_ss22_q_xs00_q, check_send_poll::<0>([0, 0], &[], [2, 2], &[]));
inst_t!(send_drop_c0_ss22_q_xs00_q, check_send_drop_or_cancel::<0>([0, 0], &[], [2, 2], &[]));
inst!(send_poll_c0_ss22_q_xs10_q0, check_send_poll::<0>([1, 0], &[0], [2, 2], &[]));
inst_t!(send_drop_c0_ss22_q_xs10_q0, check_send_drop_or_cancel::<0>([1, 0], &[0], [2, 2], &[]));
inst_t!(send_poll_c0_ss22_q_xs20_q, check_send_poll::<0>([2, 0], &[], [2, 2], &[]));
inst_t!(send_drop_c0_ss22_q_xs20_q, check_send_drop_or_cancel::<0>([2, 0], &[], [2, 2], &[]));
inst_t!(send_poll_c0_ss22_q_xs11_q01, check_send_poll::<0>([1, 1], &[0, 1], [2, 2], &[]));
inst_t!(send_drop_c0_ss22_q_xs11_q01, check_send_drop_or_cancel::<0>([1, 1], &[0, 1], [2, 2], &[]));
inst_t!(recv_poll_c0_rs23_q_xs00_q, check_recv_poll::<0>([2, 3], &[], [0, 0], &[]));
inst_t!(recv_drop_c0_rs23_q_xs00_q, check_recv_drop::<0>([2, 3], &[], [0, 0], &[]));
inst!(recv_poll_c0_rs23_q_xs10_q0, check_recv_poll::<0>([2, 3], &[], [1, 0], &[0]));
inst_t!(recv_drop_c0_rs23_q_xs10_q0, check_recv_drop::<0>([2, 3], &[], [1, 0], &[0]));
inst_t!(recv_poll_c0_rs23_q_xs11_q01, check_recv_poll::<0>([2, 3], &[], [1, 1], &[0, 1]));
inst_t!(recv_drop_c0_rs23_q_xs11_q01, check_recv_drop::<0>([2, 3], &[], [1, 1], &[0, 1]));
inst_t!(send_poll_c0_ss23_q_xs00_q, check_send_poll::<0>([0, 0], &[], [2, 3], &[]));
inst_t!(send_drop_c0_ss23_q_xs00_q, check_send_drop_or_cancel::<0>([0, 0], &[], [2, 3], &[]));
inst!(send_poll_c0_ss23_q_xs10_q0, check_send_poll::<0>([1, 0], &[0], [2, 3], &[]));
inst_t!(send_drop_c0_ss23_q_xs10_q0, check_send_drop_or_cancel::<0>([1, 0], &[0], [2, 3], &[]));
inst_t!(send_poll_c0_ss23_q_xs20_q, check_send_poll::<0>([2, 0], &[], [2, 3], &[]));
inst_t!(send_drop_c0_ss23_q_xs20_q, check_send_drop_or_cancel::<0>([2, 0], &[], [2, 3], &[]));
inst_t!(send_poll_c0_ss23_q_xs11_q01, check_send_poll::<0>([1, 1], &[0, 1], [2, 3], &[]));
inst_t!(send_drop_c0_ss23_q_xs11_q01, check_send_drop_or_cancel::<0>([1, 1], &[0, 1], [2, 3], &[]));
inst_t!(recv_drop_c0_rs30_q_xs00_q, check_recv_drop::<0>([3, 0], &[], [0, 0], &[]));
inst_t!(recv_drop_c0_rs30_q_xs10_q0, check_recv_drop::<0>([3, 0], &[], [1, 0], &[0]));
inst_t!(recv_drop_c0_rs30_q_xs11_q01, check_recv_drop::<0>([3, 0], &[], [1, 1], &[0, 1]));
inst_t!(send_drop_c0_ss30_q_xs00_q, check_send_drop_or_cancel::<0>([0, 0], &[], [3, 0], &[]));
inst_t!(send_drop_c0_ss30_q_xs10_q0, check_send_drop_or_cancel::<0>([1, 0], &[0], [3, 0], &[]));
inst_t!(send_drop_c0_ss30_q_xs20_q, check_send_drop_or_cancel::<0>([2, 0], &[], [3, 0], &[]));
inst_t!(send_drop_c0_ss30_q_xs11_q01, check_send_drop_or_cancel::<0>([1, 1], &[0, 1], [3, 0], &[]));
inst_t!(recv_drop_c0_rs31_q1_xs00_q, check_recv_drop::<0>([3, 1], &[1], [0, 0], &[]));
inst_t!(recv_drop_c0_rs31_q1_xs10_q0, check_recv_drop::<0>([3, 1], &[1], [1, 0], &[0]));
inst_t!(recv_drop_c0_rs31_q1_xs11_q01, check_recv_drop::<0>([3, 1], &[1], [1, 1], &[0, 1]));
inst_t!(send_drop_c0_ss31_q1_xs00_q, check_send_drop_or_cancel::<0>([0, 0], &[], [3, 1], &[1]));
inst_t!(send_drop_c0_ss31_q1_xs10_q0, check_send_drop_or_cancel::<0>([1, 0], &[0], [3, 1], &[1]));
inst_t!(send_drop_c0_ss31_q1_xs20_q, check_send_drop_or_cancel::<0>([2, 0], &[], [3, 1], &[1]));
inst_t!(send_drop_c0_ss31_q1_xs11_q01, check_send_drop_or_cancel::<0>([1, 1], &[0, 1], [3, 1], &[1]));
inst_t!(recv_drop_c0_rs32_q_xs00_q, check_recv_drop::<0>([3, 2], &[], [0, 0], &[]));
inst_t!(recv_drop_c0_rs32_q_xs10_q0, check_recv_drop::<0>([3, 2], &[], [1, 0], &[0]));
inst_t!(recv_drop_c0_rs32_q_xs11_q01, check_recv_drop::<0>([3, 2], &[], [1, 1], &[0, 1]));
inst_t!(send_drop_c0_ss32_q_xs00_q, check_send_drop_or_cancel::<0>([0, 0], &[], [3, 2], &[]));
inst_t!(send_drop_c0_ss32_q_xs10_q0, check_send_drop_or_cancel::<0>([1, 0], &[0], [3, 2], &[]));
inst_t!(send_drop_c0_ss32_q_xs20_q, check_send_drop_or_cancel::<0>([2, 0], &[], [3, 2], &[]));
inst_t!(send_drop_c0_ss32_q_xs11_q01, check_send_drop_or_cancel::<0>([1, 1], &[0, 1], [3, 2], &[]));
inst_t!(recv_drop_c0_rs33_q_xs00_q, check_recv_drop::<0>([3, 3], &[], [0, 0], &[]));
inst_t!(recv_drop_c0_rs33_q_xs10_q0, check_recv_drop::<0>([3, 3], &[], [1, 0], &[0]));
inst_t!(recv_drop_c0_rs33_q_xs11_q01, check_recv_drop::<0>([3, 3], &[], [1, 1], &[0, 1]));
inst_t!(send_drop_c0_ss33_q_xs00_q, check_send_drop_or_cancel::<0>([0, 0], &[], [3, 3], &[]));
inst_t!(send_drop_c0_ss33_q_xs10_q0, check_send_drop_or_cancel::<0>([1, 0], &[0], [3, 3], &[]));
inst_t!(send_drop_c0_ss33_q_xs20_q, check_send_drop_or_cancel::<0>([2, 0], &[], [3, 3], &[]));
inst_t!(send_drop_c0_ss33_q_xs11_q01, check_send_drop_or_cancel::<0>([1, 1], &[0, 1], [3, 3], &[]));
inst_t!(try_receive_c0_rs00_q_ss00_q, check_try_receive::<0>([0, 0], &[], [0, 0], &[]));
inst_t!(try_receive_c0_rs00_q_ss10_q0, check_try_receive::<0>([0, 0], &[], [1, 0], &[0]));
inst_t!(try_receive_c0_rs00_q_ss11_q01, check_try_receive::<0>([0, 0], &[], [1, 1], &[0, 1]));
inst_t!(try_receive_c0_rs10_q0_ss00_q, check_try_receive::<0>([1, 0], &[0], [0, 0], &[]));
inst_t!(try_receive_c0_rs10_q0_ss10_q0, check_try_receive::<0>([1, 0], &[0], [1, 0], &[0]));
inst_t!(try_receive_c0_rs10_q0_ss11_q01, check_try_receive::<0>([1, 0], &[0], [1, 1], &[0, 1]));
inst_t!(try_receive_c0_rs20_q_ss00_q, check_try_receive::<0>([2, 0], &[], [0, 0], &[]));
inst_t!(try_receive_c0_rs20_q_ss10_q0, check_try_receive::<0>([2, 0], &[], [1, 0], &[0]));
inst_t!(try_receive_c0_rs20_q_ss11_q01, check_try_receive::<0>([2, 0], &[], [1, 1], &[0, 1]));
inst_t!(try_receive_c0_rs11_q01_ss00_q, check_try_receive::<0>([1, 1], &[0, 1], [0, 0], &[]));
inst_t!(try_receive_c0_rs11_q01_ss10_q0, check_try_receive::<0>([1, 1], &[0, 1], [1, 0], &[0]));
inst!(try_receive_c0_rs11_q01_ss11_q01, check_try_receive::<0>([1, 1], &[0, 1], [1, 1], &[0, 1]));
inst_t!(close_c0_rs00_q_ss00_q, check_close::<0>([0, 0], &[], [0, 0], &[]));
inst_t!(close_c0_rs00_q_ss10_q0, check_close::<0>([0, 0], &[], [1, 0], &[0]));
inst_t!(close_c0_rs00_q_ss11_q01, check_close::<0>([0, 0], &[], [1, 1], &[0, 1]));
inst_t!(close_c0_rs10_q0_ss00_q, check_close::<0>([1, 0], &[0], [0, 0], &[]));
inst_t!(close_c0_rs10_q0_ss10_q0, check_close::<0>([1, 0], &[0], [1, 0], &[0]));
inst_t!(close_c0_rs10_q0_ss11_q01, check_close::<0>([1, 0], &[0], [1, 1], &[0, 1]));
inst_t!(close_c0_rs20_q_ss00_q, check_close::<0>([2, 0], &[], [0, 0], &[]));
inst_t!(close_c0_rs20_q_ss10_q0, check_close::<0>([2, 0], &[], [1, 0], &[0]));
inst_t!(close_c0_rs20_q_ss11_q01, check_close::<0>([2, 0], &[], [1, 1], &[0, 1]));
inst_t!(close_c0_rs11_q01_ss00_q, check_close::<0>([1, 1], &[0, 1], [0, 0], &[]));
inst_t!(close_c0_rs11_q01_ss10_q0, check_close::<0>([1, 1], &[0, 1], [1, 0], &[0]));
inst!(close_c0_rs11_q01_ss11_q01, check_close::<0>([1, 1], &[0, 1], [1, 1], &[0, 1]));
inst_t!(stream_c0_rs00_q_ss00_q, check_stream::<0>([0, 0], &[], [0, 0], &[]));
inst!(stream_c0_rs00_q_ss10_q0, check_stream::<0>([0, 0], &[], [1, 0], &[0]));
inst_t!(stream_c0_rs00_q_ss11_q01, check_stream::<0>([0, 0], &[], [1, 1], &[0, 1]));
inst_t!(stream_c0_rs10_q0_ss00_q, check_stream::<0>([1, 0], &[0], [0, 0], &[]));
inst_t!(stream_c0_rs10_q0_ss10_q0, check_stream::<0>([1, 0], &[0], [1, 0], &[0]));
inst_t!(stream_c0_rs10_q0_ss11_q01, check_stream::<0>([1, 0], &[0], [1, 1], &[0, 1]));
inst_t!(stream_c0_rs20_q_ss00_q, check_stream::<0>([2, 0], &[], [0, 0], &[]));
inst_t!(stream_c0_rs20_q_ss10_q0, check_stream::<0>([2, 0], &[], [1, 0], &[0]));
inst_t!(stream_c0_rs20_q_ss11_q01, check_stream::<0>([2, 0], &[], [1, 1], &[0, 1]));
// (stream_c0_rs11_q01_ss00_q -- two receivers queued, stream pending and then dropped, three queued nodes -- exceeds 40 GB in CBMC: not run)
inst_t!(stream_c0_rs11_q01_ss10_q0, check_stream::<0>([1, 1], &[0, 1], [1, 0], &[0]));
inst_t!(stream_c0_rs11_q01_ss11_q01, check_stream::<0>([1, 1], &[0, 1], [1, 1], &[0, 1]));

#[kani::proof]
#[kani::should_panic]
fn receive_poll_after_completion_panics() {
    check_poll_after_completion();
}
#[kani::proof]
#[kani::should_panic]
fn send_poll_after_completion_panics() {
    check_send_poll_after_completion();
}
