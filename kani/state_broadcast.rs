//! Kani harnesses for src/channel/state_broadcast.rs (glue L2 + wake events).
//! GROUP: state_broadcast
//! MODULE: channel::state_broadcast::kani_verif
//! TAGS: C01 C11 C13 C17 C18
//! N: quick=4 thorough=4
//! UNWIND_EXTRA: 3
//! KIND: harness (concrete queue shape, symbolic ids / value / closed flag)
//! BOUNDED: 2 receive futures; every queue shape enumerated; state ids < 8 (and the u64::MAX corner for send)
//! The transitions of `ChannelState` are proved for all queue lengths and all ids by Verus (unit `state_broadcast`);
//! these harnesses decide the glue, the invocation of wakers, and memory safety on these shapes.
use super::*;
#[path = "/verif/kani/kit.rs"]
pub mod kit;
use crate::intrusive_double_linked_list::kani_verif as lv;
use core::mem::ManuallyDrop;
use core::task::Context;

type Ch = GenericStateBroadcastChannel<NoopLock, u8>;
type RF = StateReceiveFuture<'static, NoopLock, u8>;

pub struct World {
    ch: Ch,
    rf: [ManuallyDrop<RF>; 2],
    /// 0 Unregistered, 1 Registered (queued), 3 terminated
    rst: [u8; 2],
    want: [u64; 2],
    order: [usize; 2],
    nq: usize,
    closed: bool,
    id: u64,
    val: u8,
}

fn world(rst: [u8; 2], rq: &[usize]) -> World {
    let ch = Ch::new();
    let cp: &'static Ch = unsafe { &*(&ch as *const Ch) };
    let id: u64 = kani::any();
    kani::assume(id < 8);
    let mut w = World {
        rf: core::array::from_fn(|_| ManuallyDrop::new(cp.receive(StateId::new()))),
        ch,
        rst,
        want: [0; 2],
        order: [0; 2],
        nq: rq.len(),
        closed: kani::any(),
        id,
        val: kani::any(),
    };
    let mut q = 0;
    while q < rq.len() {
        w.order[q] = rq[q];
        q += 1;
    }
    let mut i = 0;
    while i < 2 {
        let want: u64 = kani::any();
        kani::assume(want < 8);
        // invariant: a queued receiver waits for something newer than the current state
        kani::assume(rst[i] != 1 || want >= id);
        w.want[i] = want;
        i += 1;
    }
    kani::assume(!(w.closed && w.nq > 0));
    w
}

unsafe fn link(w: &mut World) {
    let cp: &'static Ch = &*(&w.ch as *const Ch);
    let mut i = 0;
    while i < 2 {
        let f = &mut *w.rf[i];
        f.channel = if w.rst[i] == 3 { None } else { Some(cp) };
        f.wait_node.state = if w.rst[i] == 1 { RecvPollState::Registered } else { RecvPollState::Unregistered };
        f.wait_node.task = if w.rst[i] == 1 { Some(kit::waker(i)) } else { None };
        f.wait_node.state_id = StateId(w.want[i]);
        i += 1;
    }
    let mut st = w.ch.inner.lock();
    st.is_closed = w.closed;
    st.state_id = StateId(w.id);
    st.value = if w.id > 0 { Some(w.val) } else { None };
    let mut q = w.nq;
    while q > 0 {
        q -= 1;
        let n: *mut ListNode<RecvWaitQueueEntry> = &mut w.rf[w.order[q]].wait_node;
        st.waiters.add_front(&mut *n);
    }
}

fn queue_ok(w: &World) -> bool {
    let st = w.ch.inner.lock();
    let mut ok = lv::wf(&st.waiters);
    let mut e = 0;
    let mut i = 0;
    while i < 2 {
        let r = w.rf[i].wait_node.state == RecvPollState::Registered;
        if r {
            e += 1;
        }
        if r != lv::contains(&st.waiters, &w.rf[i].wait_node) {
            ok = false;
        }
        i += 1;
    }
    ok && lv::len(&st.waiters) == e
}

fn check_recv_poll(rst: [u8; 2], rq: &[usize]) {
    let i = 0;
    let mut w = world(rst, rq);
    unsafe { link(&mut w) };
    assert!(queue_ok(&w));
    kani::assume(rst[i] != 3);
    let wk = kit::waker(2 + kit::any_lt(2));
    let mut cx = Context::from_waker(&wk);
    kit::arm();
    let r = unsafe { core::pin::Pin::new_unchecked(&mut *w.rf[i]) }.poll(&mut cx);
    let term = w.rf[i].is_terminated();
    kit::disarm();
    assert!(r.is_ready() == term, "[C17] is_terminated() must be true exactly after Ready");
    assert!(queue_ok(&w), "[C01] the queue must contain exactly the live waiting futures");
    let newer = w.id > 0 && w.want[i] < w.id;
    match r {
        core::task::Poll::Ready(Some((sid, v))) => {
            assert!(rst[i] == 0 && newer, "[C13] a receive completes only if a state newer than the requested id exists");
            assert!(sid == StateId(w.id) && v == w.val, "[C13] it completes with the most recently published state and its id");
        }
        core::task::Poll::Ready(None) => {
            assert!(w.closed && !newer, "[C11] [C13] None only after close, for a receiver that has seen the latest state");
        }
        core::task::Poll::Pending => {
            assert!(rst[i] == 1 || (!w.closed && !newer), "[C13] a receiver waits only on an open channel with nothing newer");
            let t = w.rf[i].wait_node.task.as_ref();
            assert!(t.is_some() && t.unwrap().will_wake(&wk), "[C13] a pending receiver is registered with the waker of its latest poll");
        }
    }
    let st = w.ch.inner.lock();
    assert!(st.state_id == StateId(w.id) && st.is_closed == w.closed, "[C13] receiving never changes the published state");
    assert!(kit::total_wakes() == 0, "[C13] polling wakes nobody");
}

fn check_recv_drop(rst: [u8; 2], rq: &[usize]) {
    let i = 0;
    let mut w = world(rst, rq);
    unsafe { link(&mut w) };
    kit::arm();
    unsafe { ManuallyDrop::drop(&mut w.rf[i]) };
    kit::disarm();
    let st = w.ch.inner.lock();
    assert!(!lv::contains(&st.waiters, &w.rf[i].wait_node), "[C01] a dropped future is no longer in the wait queue");
    assert!(lv::wf(&st.waiters), "[C01] queue consistent after cancellation");
    assert!(lv::contains(&st.waiters, &w.rf[1].wait_node) == (rst[1] == 1), "[C13] cancelling does not disturb the other receivers");
    assert!(st.state_id == StateId(w.id) && st.is_closed == w.closed, "[C11] [C13] cancelling changes nothing else");
    assert!(kit::total_wakes() == 0, "[C13] cancelling wakes nobody");
}

fn check_send(rst: [u8; 2], rq: &[usize]) {
    let mut w = world(rst, rq);
    unsafe { link(&mut w) };
    let v: u8 = kani::any();
    kit::arm();
    let r = w.ch.send(v);
    kit::disarm();
    let st = w.ch.inner.lock();
    match r {
        Ok(()) => {
            assert!(!w.closed, "[C11] a send succeeds only on an open channel");
            assert!(st.state_id == StateId(w.id + 1) && st.value == Some(v), "[C13] every successful send publishes the state under the next, strictly larger id");
            let mut i = 0;
            while i < 2 {
                assert!(kit::wakes(i) == (if rst[i] == 1 { 1 } else { 0 }), "[C13] a receiver waiting for something newer is woken exactly once by the next send; nobody else");
                i += 1;
            }
        }
        Err(ChannelSendError(x)) => {
            assert!(w.closed && x == v, "[C11] a rejected send hands back the caller's own value");
            assert!(st.state_id == StateId(w.id), "[C13] a rejected send publishes nothing");
            assert!(kit::total_wakes() == 0, "[C13] a rejected send wakes nobody");
        }
    }
    drop(st);
    assert!(queue_ok(&w), "[C01] queue consistent after send");
    assert!(w.rf[0].is_terminated() == (rst[0] == 3) && w.rf[1].is_terminated() == (rst[1] == 3), "[C17] send() terminates no future: a woken receiver is not terminated until its poll returned Ready");
}

fn check_close(rst: [u8; 2], rq: &[usize]) {
    let mut w = world(rst, rq);
    unsafe { link(&mut w) };
    kit::arm();
    let r = w.ch.close();
    kit::disarm();
    assert!(r.is_newly_closed() == !w.closed, "[C11] NewlyClosed exactly once");
    let st = w.ch.inner.lock();
    assert!(st.is_closed && st.state_id == StateId(w.id) && st.value == (if w.id > 0 { Some(w.val) } else { None }), "[C11] [C13] close() is permanent and keeps the latest state available");
    drop(st);
    let mut i = 0;
    while i < 2 {
        assert!(kit::wakes(i) == (if rst[i] == 1 { 1 } else { 0 }), "[C11] [C13] every pending receiver is woken exactly once by close(); nobody else");
        i += 1;
    }
    assert!(queue_ok(&w), "[C01] queue consistent after close");
}

fn check_try_receive(rst: [u8; 2], rq: &[usize]) {
    let mut w = world(rst, rq);
    unsafe { link(&mut w) };
    let want: u64 = kani::any();
    kani::assume(want < 8);
    kit::arm();
    let r = w.ch.try_receive(StateId(want));
    kit::disarm();
    let newer = w.id > 0 && want < w.id;
    match r {
        Some((sid, v)) => assert!(newer && sid == StateId(w.id) && v == w.val, "[C13] try_receive completes only with the latest state, and only if it is newer than the id passed in"),
        None => assert!(!newer, "[C13] try_receive yields the latest state whenever it is newer"),
    }
    assert!(kit::total_wakes() == 0 && queue_ok(&w), "[C13] try_receive changes nothing");
}

#[kani::proof]
fn send_at_the_end_of_the_id_space_is_rejected() {
    let ch = Ch::new();
    ch.inner.lock().state_id = StateId(u64::MAX);
    ch.inner.lock().value = Some(1);
    let r = ch.send(2);
    assert!(r.is_err() && ch.inner.lock().state_id == StateId(u64::MAX), "[C13] ids never wrap: a send that would overflow the id is rejected");
}

#[kani::proof]
fn fresh_future_is_not_terminated() {
    let ch = Ch::new();
    let want: u64 = kani::any();
    let r = ch.receive(StateId(want));
    assert!(!r.is_terminated(), "[C17] is_terminated() is false from creation");
    assert!(r.wait_node.state == RecvPollState::Unregistered && r.wait_node.task.is_none() && r.wait_node.state_id == StateId(want), "[C13] a new receive future waits for something newer than exactly the id it was given");
    let st = ch.inner.lock();
    assert!(!st.is_closed && st.value.is_none() && st.state_id == StateId(0) && st.waiters.is_empty(), "[C13] [C11] a new channel is open, has published nothing, and its first id will be 1");
    assert!(StateId::new() == StateId(0), "[C13] StateId::new() is smaller than every published id");
}

#[kani::proof]
#[kani::should_panic]
fn poll_after_completion_panics() {
    let mut w = world([3, 0], &[]);
    unsafe { link(&mut w) };
    let wk = kit::waker(2);
    let mut cx = Context::from_waker(&wk);
    let _ = unsafe { core::pin::Pin::new_unchecked(&mut *w.rf[0]) }.poll(&mut cx);
}

macro_rules! inst {
    ($name:ident, $check:ident ( $($arg:expr),* )) => {
        #[kani::proof]
        #[kani::stub(alloc::alloc::alloc, kit::no_alloc)]
        #[kani::stub(alloc::alloc::dealloc, kit::no_dealloc)]
        fn $name() {
            $check($($arg),*);
        }
    };
}
inst!(recv_poll_s00_q, check_recv_poll([0, 0], &[]));
inst!(recv_drop_s00_q, check_recv_drop([0, 0], &[]));
inst!(send_s00_q, check_send([0, 0], &[]));
inst!(close_s00_q, check_close([0, 0], &[]));
inst!(try_receive_s00_q, check_try_receive([0, 0], &[]));
inst!(recv_poll_s01_q1, check_recv_poll([0, 1], &[1]));
inst!(recv_drop_s01_q1, check_recv_drop([0, 1], &[1]));
inst!(send_s01_q1, check_send([0, 1], &[1]));
inst!(close_s01_q1, check_close([0, 1], &[1]));
inst!(try_receive_s01_q1, check_try_receive([0, 1], &[1]));
inst!(recv_poll_s03_q, check_recv_poll([0, 3], &[]));
inst!(recv_drop_s03_q, check_recv_drop([0, 3], &[]));
inst!(send_s03_q, check_send([0, 3], &[]));
inst!(close_s03_q, check_close([0, 3], &[]));
inst!(try_receive_s03_q, check_try_receive([0, 3], &[]));
inst!(recv_poll_s10_q0, check_recv_poll([1, 0], &[0]));
inst!(recv_drop_s10_q0, check_recv_drop([1, 0], &[0]));
inst!(recv_poll_s11_q01, check_recv_poll([1, 1], &[0, 1]));
inst!(recv_drop_s11_q01, check_recv_drop([1, 1], &[0, 1]));
inst!(send_s11_q01, check_send([1, 1], &[0, 1]));
inst!(close_s11_q01, check_close([1, 1], &[0, 1]));
inst!(try_receive_s11_q01, check_try_receive([1, 1], &[0, 1]));
inst!(recv_poll_s11_q10, check_recv_poll([1, 1], &[1, 0]));
inst!(recv_drop_s11_q10, check_recv_drop([1, 1], &[1, 0]));
inst!(send_s11_q10, check_send([1, 1], &[1, 0]));
inst!(close_s11_q10, check_close([1, 1], &[1, 0]));
inst!(try_receive_s11_q10, check_try_receive([1, 1], &[1, 0]));
inst!(recv_poll_s13_q0, check_recv_poll([1, 3], &[0]));
inst!(recv_drop_s13_q0, check_recv_drop([1, 3], &[0]));
inst!(send_s13_q0, check_send([1, 3], &[0]));
inst!(close_s13_q0, check_close([1, 3], &[0]));
inst!(try_receive_s13_q0, check_try_receive([1, 3], &[0]));
inst!(recv_drop_s30_q, check_recv_drop([3, 0], &[]));
inst!(recv_drop_s31_q1, check_recv_drop([3, 1], &[1]));
inst!(recv_drop_s33_q, check_recv_drop([3, 3], &[]));
inst!(send_s33_q, check_send([3, 3], &[]));
inst!(close_s33_q, check_close([3, 3], &[]));
inst!(try_receive_s33_q, check_try_receive([3, 3], &[]));
