//! Kani harnesses for src/sync/manual_reset_event.rs (glue L2 + wake events).  DESIGN.md 5 C01/C14/C17/C18.
//! From EVERY pre-state that satisfies the unit's representation invariant with N wait futures (every combination of
//! poll states, every queue order, flag set/clear), the REAL poll / drop / set / reset / is_terminated are executed once.
//! The state-machine transitions themselves are proved for all queue lengths by Verus (unit `event`); these harnesses
//! decide what Verus cannot see: the glue around them, that wakers are actually invoked, and memory safety of the
//! real unsafe code on these shapes.
//! GROUP: event
//! MODULE: sync::manual_reset_event::kani_verif
//! TAGS: C01 C14 C17 C18
//! N: quick=4 thorough=4
//! UNWIND_EXTRA: 3
//! KIND: harness (concrete queue shape, symbolic remaining state)
//! BOUNDED: N wait futures; every queue shape enumerated
use super::*;
#[path = "/verif/kani/kit.rs"]
mod kit;
use core::mem::ManuallyDrop;
use core::task::Context;

pub const N: usize = 2;
type Ev = GenericManualResetEvent<NoopLock>;
type Fut = GenericWaitForEventFuture<'static, NoopLock>;

pub struct World {
    ev: Ev,
    futs: [ManuallyDrop<Fut>; N],
    /// abstract poll state chosen for each future: 0 New, 1 Waiting, 2 Done (woken, not yet re-polled), 3 terminated
    st: [u8; N],
    /// queue order, front (newest) first
    order: [usize; N],
    nq: usize,
}

/// an unlinked world; `link` must be called once the value has reached its final place in memory
fn world() -> World {
    let ev = Ev::new(kani::any());
    let evp: &'static Ev = unsafe { &*(&ev as *const Ev) }; // re-pointed by link()
    World { futs: core::array::from_fn(|_| ManuallyDrop::new(evp.wait())), ev, st: [0; N], order: [0; N], nq: 0 }
}

/// turns the world into an arbitrary invariant-satisfying pre-state by direct field surgery
unsafe fn link(w: &mut World, queue: &[usize]) {
    let is_set = w.ev.is_set();
    let evp: &'static Ev = &*(&w.ev as *const Ev); // the futures never outlive the harness
    let mut i = 0;
    while i < N {
        // CONCRETE: which futures are queued, and in which order (front/newest first); symbolic: everything else
        let mut queued = false;
        let mut q = 0;
        while q < queue.len() {
            if queue[q] == i {
                queued = true;
            }
            q += 1;
        }
        let s: u8 = if queued {
            1
        } else {
            let s: u8 = kani::any();
            kani::assume(s == 0 || s == 2 || s == 3);
            s
        };
        w.st[i] = s;
        let f = &mut *w.futs[i];
        f.event = if s == 3 { None } else { Some(evp) };
        f.wait_node.state = match s {
            0 => PollState::New,
            1 => PollState::Waiting,
            _ => PollState::Done,
        };
        f.wait_node.task = if s == 1 { Some(kit::waker(i)) } else { None };
        i += 1;
    }
    // invariant inv_s: nobody is queued while the event is set
    kani::assume(!(is_set && queue.len() > 0));
    w.nq = queue.len();
    let mut q = 0;
    while q < queue.len() {
        w.order[q] = queue[q];
        q += 1;
    }
    // oldest first: each add_front pushes the previously added ones towards the back
    let mut st = w.ev.inner.lock();
    let mut q = w.nq;
    while q > 0 {
        q -= 1;
        let n: *mut ListNode<WaitQueueEntry> = &mut w.futs[w.order[q]].wait_node;
        st.waiters.add_front(&mut *n);
    }
}

use crate::intrusive_double_linked_list::kani_verif as lv;

fn linked(w: &World, i: usize) -> bool {
    let st = w.ev.inner.lock();
    lv::contains(&st.waiters, &w.futs[i].wait_node)
}

/// queue well formed and it contains exactly the futures whose node is Waiting, each once
fn queue_ok(w: &World) -> bool {
    let st = w.ev.inner.lock();
    let mut ok = lv::wf(&st.waiters);
    let mut expect = 0;
    let mut i = 0;
    while i < N {
        let waiting = w.futs[i].wait_node.state == PollState::Waiting;
        if waiting {
            expect += 1;
        }
        if waiting != lv::contains(&st.waiters, &w.futs[i].wait_node) {
            ok = false;
        }
        i += 1;
    }
    ok && lv::len(&st.waiters) == expect
}

fn check_poll(queue: &[usize], i: usize) {
    let mut w = world();
    unsafe { link(&mut w, queue) };
    assert!(queue_ok(&w));
    kani::assume(w.st[i] != 3); // caller contract: no poll after completion
    let wk = kit::waker(N + kit::any_lt(2)); // the waker of this poll: a fresh identity (N or N+1)
    let mut cx = Context::from_waker(&wk);
    let was_set = w.ev.is_set();
    let q0 = lv::view(&w.ev.inner.lock().waiters);
    kit::arm();
    let r = unsafe { core::pin::Pin::new_unchecked(&mut *w.futs[i]) }.poll(&mut cx);
    let term = w.futs[i].is_terminated();
    kit::disarm();
    // glue
    assert!(r.is_ready() == term, "[C17] is_terminated() must be true exactly after Ready");
    assert!(queue_ok(&w), "[C01] queue must contain exactly the live waiting futures");
    // behaviour
    match w.st[i] {
        0 => assert!(r.is_ready() == was_set, "[C14] first poll completes iff the event is set"),
        1 => assert!(r.is_pending(), "[C14] a queued waiter stays pending"),
        _ => assert!(r.is_ready(), "[C14] a waiter woken by set() completes even after reset()"),
    }
    if r.is_pending() {
        let t = w.futs[i].wait_node.task.as_ref();
        assert!(t.is_some() && t.unwrap().will_wake(&wk), "[C14] a pending future is registered with the waker of its latest poll");
    }
    if w.st[i] == 1 {
        assert!(lv::same(q0, lv::view(&w.ev.inner.lock().waiters)), "[C14] re-polling a queued waiter does not move it: set() wakes oldest first");
    }
    assert!(kit::total_wakes() == 0, "[C14] polling wakes nobody");
    assert!(w.ev.is_set() == was_set, "[C14] polling never changes the flag");
}

fn check_poll_after_completion_panics(queue: &[usize], i: usize) {
    let mut w = world();
    unsafe { link(&mut w, queue) };
    kani::assume(w.st[i] == 3);
    let wk = kit::waker(N);
    let mut cx = Context::from_waker(&wk);
    let _ = unsafe { core::pin::Pin::new_unchecked(&mut *w.futs[i]) }.poll(&mut cx);
}

fn check_drop_future(queue: &[usize], i: usize) {
    let mut w = world();
    unsafe { link(&mut w, queue) };
    let was_set = w.ev.is_set();
    kit::arm();
    unsafe { ManuallyDrop::drop(&mut w.futs[i]) };
    kit::disarm();
    assert!(!linked(&w, i), "[C01] a dropped future is no longer in the wait queue");
    // the rest of the queue is intact
    let mut j = 0;
    while j < N {
        if j != i {
            assert!(linked(&w, j) == (w.st[j] == 1), "[C01] dropping one future does not disturb the others");
        }
        j += 1;
    }
    assert!(kit::total_wakes() == 0, "[C14] cancelling wakes nobody");
    assert!(w.ev.is_set() == was_set, "[C14] cancelling never changes the flag");
}

fn check_set(queue: &[usize]) {
    let mut w = world();
    unsafe { link(&mut w, queue) };
    let was_set = w.ev.is_set();
    kit::arm();
    w.ev.set();
    kit::disarm();
    assert!(w.ev.is_set(), "[C14] is_set() reflects set()");
    assert!(queue_ok(&w), "[C01] queue consistent after set()");
    let mut j = 0;
    while j < N {
        assert!(w.futs[j].is_terminated() == (w.st[j] == 3), "[C17] set() terminates no future: a woken waiter is not terminated until its poll returned Ready");
        j += 1;
    }
    let mut i = 0;
    while i < N {
        if w.st[i] == 1 {
            assert!(kit::wakes(i) == 1, "[C14] set() wakes every pending waiter exactly once through its latest waker");
            assert!(w.futs[i].wait_node.state == PollState::Done, "[C14] a woken waiter is latched Done");
            assert!(!linked(&w, i), "[C01] woken waiters are unlinked");
        } else {
            assert!(kit::wakes(i) == 0, "[C14] nobody else is woken");
        }
        i += 1;
    }
    assert!(kit::log_len() == w.nq && !was_set || kit::log_len() == 0, "[C14] exactly the queued waiters are woken");
    // oldest (back of the queue) first
    let mut q = 0;
    while q < N {
        if q < w.nq {
            assert!(kit::log(q) == w.order[w.nq - 1 - q], "[C14] waiters are woken oldest first");
        }
        q += 1;
    }
}

fn check_reset(queue: &[usize]) {
    let mut w = world();
    unsafe { link(&mut w, queue) };
    kit::arm();
    w.ev.reset();
    kit::disarm();
    assert!(!w.ev.is_set(), "[C14] is_set() reflects reset()");
    assert!(kit::total_wakes() == 0, "[C14] reset() wakes nobody");
    assert!(queue_ok(&w), "[C01] queue untouched by reset()");
    let mut i = 0;
    while i < N {
        assert!(linked(&w, i) == (w.st[i] == 1), "[C14] reset() completes nobody");
        i += 1;
    }
}

#[kani::proof]
fn fresh_future_is_not_terminated() {
    let set: bool = kani::any();
    let ev = Ev::new(set);
    assert!(ev.is_set() == set, "[C14] is_set() reflects the initial state");
    let f = ev.wait();
    assert!(!f.is_terminated(), "[C17] is_terminated() is false from creation");
    assert!(f.wait_node.state == PollState::New && f.wait_node.task.is_none(), "[C14] a new wait future has not interacted with the event: whether it completes is decided at its first POLL, not at creation");
    assert!(ev.inner.lock().waiters.is_empty(), "[C01] creating a future does not touch the queue");
}

// ---------------- instances: every queue shape x every target future, concretely ----------------
macro_rules! inst {
    ($name:ident, $check:ident ( $($arg:expr),* )) => {
        #[kani::proof]
        #[kani::stub(alloc::alloc::alloc, kit::no_alloc)]
        #[kani::stub(alloc::alloc::dealloc, kit::no_dealloc)]
        fn $name() {
            $check($($arg),*);
        }
    };
}
inst!(poll_q_i0, check_poll(&[], 0));
inst!(poll_q0_i0, check_poll(&[0], 0));
inst!(poll_q1_i0, check_poll(&[1], 0));
inst!(poll_q01_i0, check_poll(&[0, 1], 0));
inst!(poll_q10_i0, check_poll(&[1, 0], 0));
inst!(drop_q_i0, check_drop_future(&[], 0));
inst!(drop_q0_i0, check_drop_future(&[0], 0));
inst!(drop_q1_i0, check_drop_future(&[1], 0));
inst!(drop_q01_i0, check_drop_future(&[0, 1], 0));
inst!(drop_q10_i0, check_drop_future(&[1, 0], 0));
inst!(set_q, check_set(&[]));
inst!(set_q0, check_set(&[0]));
inst!(set_q01, check_set(&[0, 1]));
inst!(set_q10, check_set(&[1, 0]));
inst!(reset_q, check_reset(&[]));
inst!(reset_q01, check_reset(&[0, 1]));

#[kani::proof]
#[kani::should_panic]
fn poll_after_completion_panics() {
    check_poll_after_completion_panics(&[1], 0);
}
