#!/usr/bin/env python3
"""instantiates kani/oneshot_template.rs.in for the two oneshot channel flavours"""
import itertools, os
D = os.path.dirname(os.path.abspath(__file__))
t = open(os.path.join(D, "oneshot_template.rs.in")).read()
lines = []
for st in itertools.product((0, 1, 3), repeat=2):
    members = [i for i in range(2) if st[i] == 1]
    for order in itertools.permutations(members):
        nm = "s%d%d_q%s" % (st[0], st[1], "".join(map(str, order)))
        a = "[%d, %d], &[%s]" % (st[0], st[1], ", ".join(map(str, order)))
        if st[0] != 3:
            lines.append("inst!(recv_poll_%s, check_recv_poll(%s));" % (nm, a))
        lines.append("inst!(recv_drop_%s, check_recv_drop(%s));" % (nm, a))
        if st[0] <= st[1]:
            lines.append("inst!(send_%s, check_send(%s));" % (nm, a))
            lines.append("inst!(close_%s, check_close(%s));" % (nm, a))
for (f, g, c, b) in [("oneshot", "oneshot", "GenericOneshotChannel", "false"), ("oneshot_broadcast", "oneshot_broadcast", "GenericOneshotBroadcastChannel", "true")]:
    s = t.replace("@FILE@", f).replace("@GROUP@", g).replace("@CHANNEL@", c).replace("@BROADCAST@", b).replace("@INSTANCES@", "\n".join(lines))
    open(os.path.join(D, f + ".rs"), "w").write(s)
print(len(lines), "instances per flavour")

# ---- shared-handle lifecycle harnesses
t = open(os.path.join(D, "shared_template.rs.in")).read()
COUNT = """    %s.inner.%s.store(n, Ordering::Relaxed);"""
CLONE = """
#[kani::proof]
fn %(who)s_clone_and_drop_count_handles() {
    let (s, r) = %(ctor)s::<NoopLock, u8>();
    let n: usize = kani::any();
    kani::assume(n >= 1 && n <= isize::MAX as usize);
    %(var)s.inner.%(field)s.store(n, Ordering::Relaxed);
    let c = %(var)s.clone();
    assert!(%(var)s.inner.%(field)s.load(Ordering::Relaxed) == n + 1, "[C11] cloning a %(who)s counts one more live %(who)s handle");
    assert!(!closed_flag(&s.inner.channel), "[C11] cloning never closes");
    drop(c);
    assert!(%(var)s.inner.%(field)s.load(Ordering::Relaxed) == n, "[C11] dropping a clone counts one less");
    assert!(!closed_flag(&s.inner.channel), "[C11] the channel stays open while a handle of each side is alive");
    core::mem::forget((s, r));
}
"""
FRESH = """
/// the constructor: one live handle per counted side, channel open -- so "count == number of live handles" holds from the start
#[kani::proof]
fn fresh_pair_counts_one_handle_per_side() {
    let (s, r) = %(ctor)s::<NoopLock, u8>();
%(asserts)s
    assert!(!closed_flag(&s.inner.channel), "[C11] a new shared channel is open");
    core::mem::forget((s, r));
}
"""
def fresh(ctor, fields):
    return FRESH % dict(ctor=ctor, asserts="\n".join('    assert!(s.inner.%s.load(Ordering::Relaxed) == 1, "[C11] a new shared channel counts exactly one %s handle");' % (f, f[:-1]) for f in fields))
TRY_RECV = """
/// try_receive through the shared receiver is the channel's try_receive: after the implicit close (last sender dropped) a
/// receiver that has not yet seen the latest state still gets it
#[kani::proof]
fn shared_try_receive_after_the_last_sender_is_dropped() {
    let (s, r) = generic_state_broadcast_channel::<NoopLock, u8>();
    let v: u8 = kani::any();
    let _ = s.send(v);
    drop(s);
    let got = r.try_receive(StateId::new());
    assert!(matches!(got, Some((_, x)) if x == v), "[C13] [C11] after close a receiver that has not yet seen the latest state still gets it, also through the shared try_receive");
    let again = r.try_receive(got.unwrap().0);
    assert!(again.is_none(), "[C13] a receiver that has seen the latest state gets nothing newer");
    core::mem::forget(r);
}
"""
BC_VALUES = """
/// C12 through the SHARED handles (found by seeded change C12_r71: a "move instead of clone while one receiver handle is
/// left" fast path in the shared state's receive_or_register): EVERY receive yields a clone of the one value -- a future
/// that was pending before the send, and any number of futures created after it, from one and the same receiver handle
#[kani::proof]
fn shared_every_receive_yields_a_clone_of_the_value() {
    use core::future::Future;
    let (s, r) = generic_oneshot_broadcast_channel::<NoopLock, u8>();
    let wk = unsafe { core::task::Waker::from_raw(core::task::RawWaker::new(core::ptr::null(), &NOOP)) };
    let mut cx = core::task::Context::from_waker(&wk);
    let v: u8 = kani::any();
    let early: bool = kani::any();
    let mut f0 = core::mem::ManuallyDrop::new(r.receive());
    if early {
        let p = unsafe { core::pin::Pin::new_unchecked(&mut *f0) }.poll(&mut cx);
        assert!(p.is_pending(), "[C12] nothing to receive before the send");
    }
    assert!(s.send(v).is_ok(), "[C12] the first send on an open channel succeeds");
    let p = unsafe { core::pin::Pin::new_unchecked(&mut *f0) }.poll(&mut cx);
    assert!(p == core::task::Poll::Ready(Some(v)), "[C12] broadcast: a receive that started before or after the send yields the value");
    let mut f1 = core::mem::ManuallyDrop::new(r.receive());
    let p = unsafe { core::pin::Pin::new_unchecked(&mut *f1) }.poll(&mut cx);
    assert!(p == core::task::Poll::Ready(Some(v)), "[C12] broadcast: EVERY further receive yields a clone of the value, also while a single receiver handle is alive");
    let mut f2 = core::mem::ManuallyDrop::new(r.receive());
    let p = unsafe { core::pin::Pin::new_unchecked(&mut *f2) }.poll(&mut cx);
    assert!(p == core::task::Poll::Ready(Some(v)), "[C12] broadcast: ... and the one after that");
    assert!(s.send(v).is_err(), "[C12] every other send fails");
    core::mem::forget((s, r));
}
"""
ONE_VALUES = """
/// C12 through the SHARED handles: exactly one receive yields the value, every other one None; a second send fails
#[kani::proof]
fn shared_exactly_one_receive_yields_the_value() {
    use core::future::Future;
    let (s, r) = generic_oneshot_channel::<NoopLock, u8>();
    let wk = unsafe { core::task::Waker::from_raw(core::task::RawWaker::new(core::ptr::null(), &NOOP)) };
    let mut cx = core::task::Context::from_waker(&wk);
    let v: u8 = kani::any();
    let early: bool = kani::any();
    let mut f0 = core::mem::ManuallyDrop::new(r.receive());
    if early {
        let p = unsafe { core::pin::Pin::new_unchecked(&mut *f0) }.poll(&mut cx);
        assert!(p.is_pending(), "[C12] nothing to receive before the send");
    }
    assert!(s.send(v).is_ok(), "[C12] the first send on an open channel succeeds");
    let p = unsafe { core::pin::Pin::new_unchecked(&mut *f0) }.poll(&mut cx);
    assert!(p == core::task::Poll::Ready(Some(v)), "[C12] the receive yields the value");
    let mut f1 = core::mem::ManuallyDrop::new(r.receive());
    let p = unsafe { core::pin::Pin::new_unchecked(&mut *f1) }.poll(&mut cx);
    assert!(p == core::task::Poll::Ready(None), "[C12] single consumer: every other receive yields None");
    assert!(s.send(v).is_err(), "[C12] every other send fails");
    core::mem::forget((s, r));
}
"""
cfg = {
 "oneshot": dict(PROP="C12", EXTRA=ONE_VALUES, RECEIVE="receive()", CHAN="GenericOneshotChannel", CLOSED="is_fulfilled", CTOR="generic_oneshot_channel", USE="", SENDER_COUNT="", SENDER_LAST="true", RECEIVER_COUNT="", RECEIVER_LAST="true", CLONE_TESTS=FRESH % dict(ctor="generic_oneshot_channel", asserts="")),
 "oneshot_broadcast": dict(PROP="C12", EXTRA=BC_VALUES, RECEIVE="receive()", CHAN="GenericOneshotBroadcastChannel", CLOSED="is_fulfilled", CTOR="generic_oneshot_broadcast_channel", USE="use core::sync::atomic::Ordering;", SENDER_COUNT="", SENDER_LAST="true",
      RECEIVER_COUNT=COUNT % ("r", "receivers"), RECEIVER_LAST="(n == 1)", CLONE_TESTS=CLONE % dict(who="receiver", ctor="generic_oneshot_broadcast_channel", var="r", field="receivers") + fresh("generic_oneshot_broadcast_channel", ["receivers"])),
 "state_broadcast": dict(PROP="C13", EXTRA=TRY_RECV, RECEIVE="receive(StateId::new())", CHAN="GenericStateBroadcastChannel", CLOSED="is_closed", CTOR="generic_state_broadcast_channel", USE="use core::sync::atomic::Ordering;", SENDER_COUNT=COUNT % ("s", "senders"), SENDER_LAST="(n == 1)",
      RECEIVER_COUNT=COUNT % ("r", "receivers"), RECEIVER_LAST="(n == 1)", CLONE_TESTS=CLONE % dict(who="receiver", ctor="generic_state_broadcast_channel", var="r", field="receivers") + CLONE % dict(who="sender", ctor="generic_state_broadcast_channel", var="s", field="senders") + fresh("generic_state_broadcast_channel", ["senders", "receivers"])),
}
for f, c in cfg.items():
    x = t.replace("@FILE@", f)
    for k, v in c.items():
        x = x.replace("@%s@" % k, v)
    open(os.path.join(D, f + "_shared.rs"), "w").write(x)
print("shared lifecycle files written")
