#!/usr/bin/env python3
"""instantiates kani/oneshot_template.rs.in for the two oneshot channel flavours"""
import itertools, os
D = os.path.dirname(os.path.abspath(__file__))
t = open(os.path.join(D, "oneshot_template.rs.in")).read()
lines = []
for st in itertools.product((0, 1, 3), repeat=2):
    members = [i for i in range(2) if st[i] == 1]
    for order in itertools.permutations(members):
        nm = "s%d%d_q%s" % (st[0], st[1], "".join(map(str, order)))
        a = "[%d, %d], &[%s]" % (st[0], st[1], ", ".join(map(str, order)))
        if st[0] != 3:
            lines.append("inst!(recv_poll_%s, check_recv_poll(%s));" % (nm, a))
        lines.append("inst!(recv_drop_%s, check_recv_drop(%s));" % (nm, a))
        if st[0] <= st[1]:
            lines.append("inst!(send_%s, check_send(%s));" % (nm, a))
            lines.append("inst!(close_%s, check_close(%s));" % (nm, a))
for (f, g, c, b) in [("oneshot", "oneshot", "GenericOneshotChannel", "false"), ("oneshot_broadcast", "oneshot_broadcast", "GenericOneshotBroadcastChannel", "true")]:
    s = t.replace("@FILE@", f).replace("@GROUP@", g).replace("@CHANNEL@", c).replace("@BROADCAST@", b).replace("@INSTANCES@", "\n".join(lines))
    open(os.path.join(D, f + ".rs"), "w").write(s)
print(len(lines), "instances per flavour")
