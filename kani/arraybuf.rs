//! Kani harnesses for `ArrayBuf` in src/buffer/ring_buffer.rs (C19; also the RingBuf contract the mpmc proofs assume).
//! GROUP: arraybuf
//! MODULE: buffer::ring_buffer::kani_verif
//! TAGS: C19 C18
//! N: quick=4 thorough=8
//! UNWIND_EXTRA: 6
//! KIND: harness (inductive step from an arbitrary valid buffer state; symbolic indices and contents)
//! BOUNDED: capacities 0..4 (thorough: also 5 and 8); unbounded in history length (induction over push/pop)
//! From EVERY valid state of an ArrayBuf of capacity L (any fill level, any position of the read index -- so every
//! wrap-around phase --, any contents) one push or pop is executed on the REAL code and compared with a shadow
//! sequence; len/is_empty/can_push/capacity are checked against the shadow; Drop is checked with drop-counting
//! elements (every stored element dropped exactly once, popped elements never by the buffer).
use super::*;
#[path = "/verif/kani/kit.rs"]
mod kit;

static mut DROPS: [u8; 8] = [0; 8];

pub struct Counted(u8);
impl Drop for Counted {
    fn drop(&mut self) {
        unsafe {
            DROPS[(self.0 & 7) as usize] += 1;
        }
    }
}

/// an arbitrary valid state: `size` elements starting at `recv_idx`, wrapping around
unsafe fn any_state<const L: usize>(shadow: &mut [u8; 8]) -> (ArrayBuf<u8, [u8; L]>, usize)
where
    [u8; L]: RealArray<u8> + AsMut<[u8]> + AsRef<[u8]>,
{
    let mut b = ArrayBuf::<u8, [u8; L]>::new();
    let size: usize = kani::any();
    kani::assume(size <= L);
    let recv: usize = kani::any();
    kani::assume(if L == 0 { recv == 0 } else { recv < L });
    b.size = size;
    b.recv_idx = recv;
    b.send_idx = if L == 0 { 0 } else { (recv + size) % L };
    let p = b.buffer.as_mut_ptr() as *mut u8;
    let mut k = 0;
    while k < L {
        if k < size {
            let v: u8 = kani::any();
            shadow[k] = v;
            p.add((recv + k) % L).write(v);
        }
        k += 1;
    }
    (b, size)
}

unsafe fn view_matches<const L: usize>(b: &ArrayBuf<u8, [u8; L]>, shadow: &[u8; 8], n: usize) -> bool
where
    [u8; L]: RealArray<u8> + AsMut<[u8]> + AsRef<[u8]>,
{
    if b.size != n {
        return false;
    }
    let p = b.buffer.as_ptr() as *const u8;
    let mut ok = true;
    let mut k = 0;
    while k < L {
        if k < n && p.add((b.recv_idx + k) % L).read() != shadow[k] {
            ok = false;
        }
        k += 1;
    }
    ok && (L == 0 || (b.recv_idx < L && b.send_idx == (b.recv_idx + n) % L))
}

fn check_observers<const L: usize>()
where
    [u8; L]: RealArray<u8> + AsMut<[u8]> + AsRef<[u8]>,
{
    let mut shadow = [0u8; 8];
    let (b, n) = unsafe { any_state::<L>(&mut shadow) };
    assert!(b.capacity() == L, "[C19] capacity() is the array length");
    assert!(b.len() == n, "[C19] len() is the number of stored elements");
    assert!(b.is_empty() == (n == 0), "[C19] is_empty() <=> nothing stored");
    assert!(b.can_push() == (n < L), "[C19] can_push() <=> fewer than capacity elements stored (never for capacity 0)");
    core::mem::forget(b);
}

fn check_push<const L: usize>()
where
    [u8; L]: RealArray<u8> + AsMut<[u8]> + AsRef<[u8]>,
{
    let mut shadow = [0u8; 8];
    let (mut b, n) = unsafe { any_state::<L>(&mut shadow) };
    kani::assume(b.can_push());
    let x: u8 = kani::any();
    b.push(x);
    shadow[n] = x;
    assert!(unsafe { view_matches(&b, &shadow, n + 1) }, "[C19] push appends at the end and keeps every other element (incl. index wrap-around)");
    core::mem::forget(b);
}

fn check_pop<const L: usize>()
where
    [u8; L]: RealArray<u8> + AsMut<[u8]> + AsRef<[u8]>,
{
    let mut shadow = [0u8; 8];
    let (mut b, n) = unsafe { any_state::<L>(&mut shadow) };
    kani::assume(!b.is_empty());
    let x = b.pop();
    assert!(x == shadow[0], "[C19] pop returns the oldest element (insertion order)");
    let mut rest = [0u8; 8];
    let mut k = 0;
    while k < 7 {
        rest[k] = shadow[k + 1];
        k += 1;
    }
    assert!(unsafe { view_matches(&b, &rest, n - 1) }, "[C19] pop removes exactly the oldest element and keeps the others in order");
    core::mem::forget(b);
}

fn check_drop<const L: usize>()
where
    [Counted; L]: RealArray<Counted> + AsMut<[Counted]> + AsRef<[Counted]>,
{
    // elements are tagged 0..size-1 in storage order; optionally pop one before dropping the buffer
    let mut b = ArrayBuf::<Counted, [Counted; L]>::new();
    let size: usize = kani::any();
    kani::assume(size <= L);
    let recv: usize = kani::any();
    kani::assume(if L == 0 { recv == 0 } else { recv < L });
    b.size = size;
    b.recv_idx = recv;
    b.send_idx = if L == 0 { 0 } else { (recv + size) % L };
    unsafe {
        let p = b.buffer.as_mut_ptr() as *mut Counted;
        let mut k = 0;
        while k < L {
            if k < size {
                p.add((recv + k) % L).write(Counted(k as u8));
            }
            k += 1;
        }
    }
    let pop_first: bool = kani::any();
    let mut popped: Option<Counted> = None;
    if pop_first && size > 0 {
        popped = Some(b.pop());
    }
    drop(b);
    let mut k = 0;
    while k < 8 {
        let expect = if k < size && !(popped.is_some() && k == 0) { 1 } else { 0 };
        assert!(unsafe { DROPS[k] } == expect, "[C19] dropping the buffer drops every element still inside exactly once, and no popped element");
        k += 1;
    }
    core::mem::forget(popped);
}

static mut ZDROPS: u8 = 0;
/// a zero-sized element type with a destructor: element size must not matter to the drop accounting
pub struct Zst;
impl Drop for Zst {
    fn drop(&mut self) {
        unsafe {
            ZDROPS += 1;
        }
    }
}

fn check_drop_zst<const L: usize>()
where
    [Zst; L]: RealArray<Zst> + AsMut<[Zst]> + AsRef<[Zst]>,
{
    let mut b = ArrayBuf::<Zst, [Zst; L]>::new();
    let size: usize = kani::any();
    kani::assume(size <= L);
    let recv: usize = kani::any();
    kani::assume(if L == 0 { recv == 0 } else { recv < L });
    b.size = size;
    b.recv_idx = recv;
    b.send_idx = if L == 0 { 0 } else { (recv + size) % L };
    unsafe {
        let p = b.buffer.as_mut_ptr() as *mut Zst;
        let mut k = 0;
        while k < L {
            if k < size {
                p.add((recv + k) % L).write(Zst);
            }
            k += 1;
        }
    }
    let pop_first: bool = kani::any();
    let mut popped = 0usize;
    if pop_first && size > 0 {
        core::mem::forget(b.pop());
        popped = 1;
    }
    assert!(b.len() == size - popped, "[C19] len() counts zero-sized elements too");
    drop(b);
    assert!(unsafe { ZDROPS } as usize == size - popped, "[C19] dropping the buffer drops every element still inside exactly once, whatever the element size (zero-sized elements included)");
}

/// FixedHeapBuf: "fixed" means the whole capacity is allocated by the constructor; filling it and draining it afterwards
/// never allocates or frees (C18: the fixed heap buffer is a non-growing flavour)
#[cfg(feature = "alloc")]
#[kani::proof]
#[kani::stub(alloc::alloc::alloc, kit::no_alloc)]
#[kani::stub(alloc::alloc::dealloc, kit::no_dealloc)]
#[kani::stub(alloc::alloc::realloc, kit::no_realloc)]
fn fixed_heap_buf_allocates_only_in_its_constructor() {
    let mut b = FixedHeapBuf::<u8>::with_capacity(2);
    assert!(b.capacity() == 2 && b.len() == 0 && b.can_push(), "[C19] a new fixed heap buffer is empty and has the requested capacity");
    kit::arm();
    b.push(1);
    b.push(2);
    assert!(!b.can_push() && b.len() == 2, "[C19] the fixed heap buffer is full at its capacity");
    let x = b.pop();
    b.push(3);
    let y = b.pop();
    kit::disarm();
    assert!(x == 1 && y == 2, "[C19] FIFO");
    core::mem::forget(b);
}

#[kani::proof]
fn new_buffer_is_empty() {
    let b = ArrayBuf::<u8, [u8; 3]>::new();
    assert!(b.len() == 0 && b.is_empty() && b.can_push() && b.capacity() == 3, "[C19] a new buffer is empty");
    let c = ArrayBuf::<u8, [u8; 3]>::with_capacity(kani::any());
    assert!(c.len() == 0 && c.capacity() == 3, "[C19] the array-backed buffer ignores the capacity hint");
    let z = ArrayBuf::<u8, [u8; 0]>::new();
    assert!(z.is_empty() && !z.can_push() && z.capacity() == 0, "[C19] capacity 0: empty and never pushable");
}

#[kani::proof]
#[kani::should_panic]
fn push_on_full_buffer_panics() {
    let mut shadow = [0u8; 8];
    let (mut b, _n) = unsafe { any_state::<2>(&mut shadow) };
    kani::assume(!b.can_push());
    b.push(1);
    core::mem::forget(b);
}

#[kani::proof]
#[kani::should_panic]
fn pop_on_empty_buffer_panics() {
    let mut b = ArrayBuf::<u8, [u8; 2]>::new();
    let _ = b.pop();
}

macro_rules! inst {
    ($name:ident, $check:ident :: < $c:literal > ()) => {
        #[kani::proof]
        fn $name() {
            $check::<$c>();
        }
    };
}
macro_rules! inst_t {
    ($name:ident, $check:ident :: < $c:literal > ()) => {
        #[kani::proof]
        fn $name() {
            $check::<$c>();
        }
    };
}
inst!(observers_l0, check_observers::<0>());
inst!(observers_l1, check_observers::<1>());
inst!(observers_l2, check_observers::<2>());
inst!(observers_l3, check_observers::<3>());
inst!(observers_l4, check_observers::<4>());
inst!(push_l1, check_push::<1>());
inst!(push_l2, check_push::<2>());
inst!(push_l3, check_push::<3>());
inst!(push_l4, check_push::<4>());
inst!(pop_l1, check_pop::<1>());
inst!(pop_l2, check_pop::<2>());
inst!(pop_l3, check_pop::<3>());
inst!(pop_l4, check_pop::<4>());
inst!(drop_zst_l0, check_drop_zst::<0>());
inst!(drop_zst_l2, check_drop_zst::<2>());
inst!(drop_zst_l3, check_drop_zst::<3>());
inst!(drop_l0, check_drop::<0>());
inst!(drop_l1, check_drop::<1>());
inst!(drop_l2, check_drop::<2>());
inst!(drop_l3, check_drop::<3>());
inst!(drop_l4, check_drop::<4>());
inst_t!(observers_l5, check_observers::<5>());
inst_t!(push_l5, check_push::<5>());
inst_t!(pop_l5, check_pop::<5>());
inst_t!(drop_l5, check_drop::<5>());
inst_t!(push_l8, check_push::<8>());
inst_t!(pop_l8, check_pop::<8>());
