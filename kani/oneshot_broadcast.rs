//! Kani harnesses for src/channel/oneshot_broadcast.rs (glue L2 + wake events).
//! GROUP: oneshot_broadcast
//! MODULE: channel::oneshot_broadcast::kani_verif
//! TAGS: C01 C11 C12 C17 C18
//! N: quick=4 thorough=4
//! UNWIND_EXTRA: 3
//! KIND: harness (concrete queue shape, symbolic value / fulfilled flag)
//! BOUNDED: 2 receive futures; every queue shape enumerated
//! The transitions of `ChannelState` are proved for all queue lengths by Verus (unit `oneshot_broadcast`); these harnesses decide
//! the glue (receive futures, send/close wrappers), that every drained receiver's waker is really invoked exactly
//! once, and memory safety on these shapes.  GENERATED from kani/oneshot_template.rs.in by kani/gen_oneshot.py.
use super::*;
#[path = "/verif/kani/kit.rs"]
mod kit;
use crate::intrusive_double_linked_list::kani_verif as lv;
use core::future::Future;
use core::mem::ManuallyDrop;
use core::task::Context;
use futures_core::future::FusedFuture;

type Ch = GenericOneshotBroadcastChannel<NoopLock, u8>;
type RF = ChannelReceiveFuture<'static, NoopLock, u8>;
/// broadcast: a receive clones the value and leaves it in the channel
const BROADCAST: bool = true;

pub struct World {
    ch: Ch,
    rf: [ManuallyDrop<RF>; 2],
    /// 0 Unregistered, 1 Registered (queued), 3 terminated
    rst: [u8; 2],
    order: [usize; 2],
    nq: usize,
    fulfilled: bool,
    val: Option<u8>,
}

fn world(rst: [u8; 2], rq: &[usize]) -> World {
    let ch = Ch::new();
    let cp: &'static Ch = unsafe { &*(&ch as *const Ch) };
    let mut w = World { rf: core::array::from_fn(|_| ManuallyDrop::new(cp.receive())), ch, rst, order: [0; 2], nq: rq.len(), fulfilled: kani::any(), val: kani::any() };
    let mut q = 0;
    while q < rq.len() {
        w.order[q] = rq[q];
        q += 1;
    }
    // invariants: a value only in a fulfilled channel; nobody queued once fulfilled / closed
    kani::assume(!(w.val.is_some() && !w.fulfilled));
    kani::assume(!(w.fulfilled && w.nq > 0));
    w
}

unsafe fn link(w: &mut World) {
    let cp: &'static Ch = &*(&w.ch as *const Ch);
    let mut i = 0;
    while i < 2 {
        let f = &mut *w.rf[i];
        f.channel = if w.rst[i] == 3 { None } else { Some(cp) };
        f.wait_node.state = if w.rst[i] == 1 { RecvPollState::Registered } else { RecvPollState::Unregistered };
        f.wait_node.task = if w.rst[i] == 1 { Some(kit::waker(i)) } else { None };
        i += 1;
    }
    let mut st = w.ch.inner.lock();
    st.is_fulfilled = w.fulfilled;
    st.value = w.val;
    let mut q = w.nq;
    while q > 0 {
        q -= 1;
        let n: *mut ListNode<RecvWaitQueueEntry> = &mut w.rf[w.order[q]].wait_node;
        st.waiters.add_front(&mut *n);
    }
}

fn queue_ok(w: &World) -> bool {
    let st = w.ch.inner.lock();
    let mut ok = lv::wf(&st.waiters);
    let mut e = 0;
    let mut i = 0;
    while i < 2 {
        let r = w.rf[i].wait_node.state == RecvPollState::Registered;
        if r {
            e += 1;
        }
        if r != lv::contains(&st.waiters, &w.rf[i].wait_node) {
            ok = false;
        }
        i += 1;
    }
    ok && lv::len(&st.waiters) == e
}

fn check_recv_poll(rst: [u8; 2], rq: &[usize]) {
    let i = 0;
    let mut w = world(rst, rq);
    unsafe { link(&mut w) };
    assert!(queue_ok(&w));
    kani::assume(rst[i] != 3);
    let wk = kit::waker(2 + kit::any_lt(2));
    let mut cx = Context::from_waker(&wk);
    kit::arm();
    let r = unsafe { core::pin::Pin::new_unchecked(&mut *w.rf[i]) }.poll(&mut cx);
    let term = w.rf[i].is_terminated();
    kit::disarm();
    assert!(r.is_ready() == term, "[C17] is_terminated() must be true exactly after Ready");
    assert!(queue_ok(&w), "[C01] the queue must contain exactly the live waiting futures");
    let now_val = w.ch.inner.lock().value;
    match r {
        core::task::Poll::Ready(Some(v)) => {
            assert!(w.val == Some(v), "[C12] a receive yields the value that was sent");
            if BROADCAST {
                assert!(now_val == w.val, "[C12] broadcast: the value stays for the other receivers");
            } else {
                assert!(now_val.is_none(), "[C12] single consumer: exactly one receive ever yields the value");
            }
        }
        core::task::Poll::Ready(None) => {
            assert!(w.fulfilled && w.val.is_none(), "[C11] [C12] None only if the channel was closed / its value is gone");
        }
        core::task::Poll::Pending => {
            assert!(!w.fulfilled, "[C12] a receive waits only while nothing was sent and the channel is open");
            let t = w.rf[i].wait_node.task.as_ref();
            assert!(t.is_some() && t.unwrap().will_wake(&wk), "[C12] a pending receiver is registered with the waker of its latest poll");
            assert!(now_val == w.val, "[C12] a pending receive takes nothing");
        }
    }
    assert!(kit::total_wakes() == 0, "[C12] polling wakes nobody");
}

fn check_recv_drop(rst: [u8; 2], rq: &[usize]) {
    let i = 0;
    let mut w = world(rst, rq);
    unsafe { link(&mut w) };
    kit::arm();
    unsafe { ManuallyDrop::drop(&mut w.rf[i]) };
    kit::disarm();
    let st = w.ch.inner.lock();
    assert!(!lv::contains(&st.waiters, &w.rf[i].wait_node), "[C01] a dropped future is no longer in the wait queue");
    assert!(lv::wf(&st.waiters), "[C01] queue consistent after cancellation");
    assert!(lv::contains(&st.waiters, &w.rf[1].wait_node) == (rst[1] == 1), "[C12] cancelling does not disturb the other receivers");
    assert!(st.value == w.val && st.is_fulfilled == w.fulfilled, "[C11] [C12] cancelling a receive neither takes the value nor closes the channel");
    assert!(kit::total_wakes() == 0, "[C12] cancelling wakes nobody");
}

fn check_send(rst: [u8; 2], rq: &[usize]) {
    let mut w = world(rst, rq);
    unsafe { link(&mut w) };
    let v: u8 = kani::any();
    kit::arm();
    let r = w.ch.send(v);
    kit::disarm();
    match r {
        Ok(()) => {
            assert!(!w.fulfilled, "[C11] [C12] only the first send on an open channel succeeds");
            let st = w.ch.inner.lock();
            assert!(st.value == Some(v) && st.is_fulfilled, "[C12] the accepted value is stored");
            drop(st);
            let mut i = 0;
            while i < 2 {
                assert!(kit::wakes(i) == (if rst[i] == 1 { 1 } else { 0 }), "[C12] every receiver pending at the moment of the send is woken exactly once through its latest waker; nobody else");
                i += 1;
            }
        }
        Err(ChannelSendError(x)) => {
            assert!(w.fulfilled && x == v, "[C11] [C12] a rejected send hands back the caller's own value");
            assert!(w.ch.inner.lock().value == w.val, "[C12] a rejected send changes nothing");
            assert!(kit::total_wakes() == 0, "[C12] a rejected send wakes nobody");
        }
    }
    assert!(queue_ok(&w), "[C01] queue consistent after send");
    assert!(w.rf[0].is_terminated() == (rst[0] == 3) && w.rf[1].is_terminated() == (rst[1] == 3), "[C17] send() terminates no future: a woken receiver is not terminated until its poll returned Ready");
}

fn check_close(rst: [u8; 2], rq: &[usize]) {
    let mut w = world(rst, rq);
    unsafe { link(&mut w) };
    kit::arm();
    let r = w.ch.close();
    kit::disarm();
    assert!(r.is_newly_closed() == !w.fulfilled, "[C11] NewlyClosed exactly once");
    let st = w.ch.inner.lock();
    assert!(st.value == w.val, "[C11] [C12] close() never touches a stored value: a value sent before the close is still delivered");
    assert!(st.is_fulfilled, "[C11] close() is permanent");
    drop(st);
    let mut i = 0;
    while i < 2 {
        assert!(kit::wakes(i) == (if rst[i] == 1 { 1 } else { 0 }), "[C11] [C12] every pending receiver is woken exactly once by close(); nobody else");
        i += 1;
    }
    assert!(queue_ok(&w), "[C01] queue consistent after close");
}

#[kani::proof]
fn fresh_future_is_not_terminated() {
    let ch = Ch::new();
    let r = ch.receive();
    assert!(!r.is_terminated(), "[C17] is_terminated() is false from creation");
    assert!(r.wait_node.state == RecvPollState::Unregistered && r.wait_node.task.is_none(), "[C12] a new receive future has not started waiting");
    let st = ch.inner.lock();
    assert!(!st.is_fulfilled && st.value.is_none() && st.waiters.is_empty(), "[C12] [C11] a new channel is open and holds no value");
}

#[kani::proof]
#[kani::should_panic]
fn poll_after_completion_panics() {
    let mut w = world([3, 0], &[]);
    unsafe { link(&mut w) };
    let wk = kit::waker(2);
    let mut cx = Context::from_waker(&wk);
    let _ = unsafe { core::pin::Pin::new_unchecked(&mut *w.rf[0]) }.poll(&mut cx);
}

macro_rules! inst {
    ($name:ident, $check:ident ( $($arg:expr),* )) => {
        #[kani::proof]
        #[kani::stub(alloc::alloc::alloc, kit::no_alloc)]
        #[kani::stub(alloc::alloc::dealloc, kit::no_dealloc)]
        fn $name() {
            $check($($arg),*);
        }
    };
}
inst!(recv_poll_s00_q, check_recv_poll([0, 0], &[]));
inst!(recv_drop_s00_q, check_recv_drop([0, 0], &[]));
inst!(send_s00_q, check_send([0, 0], &[]));
inst!(close_s00_q, check_close([0, 0], &[]));
inst!(recv_poll_s01_q1, check_recv_poll([0, 1], &[1]));
inst!(recv_drop_s01_q1, check_recv_drop([0, 1], &[1]));
inst!(send_s01_q1, check_send([0, 1], &[1]));
inst!(close_s01_q1, check_close([0, 1], &[1]));
inst!(recv_poll_s03_q, check_recv_poll([0, 3], &[]));
inst!(recv_drop_s03_q, check_recv_drop([0, 3], &[]));
inst!(send_s03_q, check_send([0, 3], &[]));
inst!(close_s03_q, check_close([0, 3], &[]));
inst!(recv_poll_s10_q0, check_recv_poll([1, 0], &[0]));
inst!(recv_drop_s10_q0, check_recv_drop([1, 0], &[0]));
inst!(recv_poll_s11_q01, check_recv_poll([1, 1], &[0, 1]));
inst!(recv_drop_s11_q01, check_recv_drop([1, 1], &[0, 1]));
inst!(send_s11_q01, check_send([1, 1], &[0, 1]));
inst!(close_s11_q01, check_close([1, 1], &[0, 1]));
inst!(recv_poll_s11_q10, check_recv_poll([1, 1], &[1, 0]));
inst!(recv_drop_s11_q10, check_recv_drop([1, 1], &[1, 0]));
inst!(send_s11_q10, check_send([1, 1], &[1, 0]));
inst!(close_s11_q10, check_close([1, 1], &[1, 0]));
inst!(recv_poll_s13_q0, check_recv_poll([1, 3], &[0]));
inst!(recv_drop_s13_q0, check_recv_drop([1, 3], &[0]));
inst!(send_s13_q0, check_send([1, 3], &[0]));
inst!(close_s13_q0, check_close([1, 3], &[0]));
inst!(recv_drop_s30_q, check_recv_drop([3, 0], &[]));
inst!(recv_drop_s31_q1, check_recv_drop([3, 1], &[1]));
inst!(recv_drop_s33_q, check_recv_drop([3, 3], &[]));
inst!(send_s33_q, check_send([3, 3], &[]));
inst!(close_s33_q, check_close([3, 3], &[]));
