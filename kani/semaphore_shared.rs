//! Kani harnesses for the shared (Arc) flavour in src/sync/semaphore.rs; hooked inside `mod if_alloc`.
//! GROUP: semaphore_shared
//! MODULE: sync::semaphore::if_alloc::kani_verif_shared
//! TAGS: C01 C05 C06 C07 C17 C18
//! N: quick=4 thorough=4
//! UNWIND_EXTRA: 3
//! KIND: harness (concrete queue shape and fairness, symbolic permits / request sizes / remaining state)
//! BOUNDED: N acquire futures; every queue shape enumerated; permits and requests < 8
use super::super::kani_verif::{apply, head_served, kit, queue_ok, shape, wake_rule, HasNode, Shape, N};
use super::*;
use crate::intrusive_double_linked_list::kani_verif as lv;
use core::mem::ManuallyDrop;
use core::task::Context;

type SSem = GenericSharedSemaphore<NoopLock>;
type SFut = GenericSharedSemaphoreAcquireFuture<NoopLock>;
impl HasNode for SFut {
    fn node(&mut self) -> &mut ListNode<WaitQueueEntry> {
        &mut self.wait_node
    }
    fn node_ref(&self) -> &ListNode<WaitQueueEntry> {
        &self.wait_node
    }
}

// ------------------------------------------------------------------------------------------------
// shared flavour (Arc handle inside the future)
// ------------------------------------------------------------------------------------------------
pub struct SWorld {
    sem: SSem,
    futs: [ManuallyDrop<SFut>; N],
    sh: Shape,
}
fn sworld(fair: bool, st: [u8; N], queue: &[usize]) -> SWorld {
    let sem = SSem::new(fair, 0);
    SWorld { futs: core::array::from_fn(|_| ManuallyDrop::new(sem.acquire(0))), sem, sh: shape(fair, st, queue) }
}
unsafe fn slink(w: &mut SWorld) {
    let mut i = 0;
    while i < N {
        if w.sh.st[i] == 3 {
            // a terminated shared future has given its handle away
            w.futs[i].semaphore = None;
        }
        i += 1;
    }
    let mut st = w.sem.state.lock();
    apply(&w.sh, &mut w.futs, &mut st);
}

fn check_shared_poll(fair: bool, st: [u8; N], queue: &[usize]) {
    let i = 0;
    let mut w = sworld(fair, st, queue);
    unsafe { slink(&mut w) };
    kani::assume(w.sh.st[i] != 3);
    let wk = kit::waker(N + kit::any_lt(2));
    let mut cx = Context::from_waker(&wk);
    let q0 = lv::view(&w.sem.state.lock().waiters);
    kit::arm();
    let r = unsafe { core::pin::Pin::new_unchecked(&mut *w.futs[i]) }.poll(&mut cx);
    let term = w.futs[i].is_terminated();
    kit::disarm();
    assert!(r.is_ready() == term, "[C17] is_terminated() must be true exactly after Ready (a pending shared future keeps its handle)");
    assert!(queue_ok(fair, &w.futs, &w.sem.state.lock()), "[C01] queue must contain exactly the live waiting futures");
    if w.sh.st[i] == 1 && r.is_pending() {
        assert!(lv::same(q0, lv::view(&w.sem.state.lock().waiters)), "[C07] re-polling a waiting shared acquire future does not change its place in the order of arrival");
    }
    let now = w.sem.permits();
    match &r {
        core::task::Poll::Ready(rel) => {
            assert!(w.sh.permits >= w.sh.req[i] && now == w.sh.permits - w.sh.req[i], "[C05] an acquisition completes only when n permits are free and takes exactly n");
            assert!(rel.permits == w.sh.req[i], "[C05] the releaser returns exactly the acquired amount");
            if fair && w.sh.req[i] > 0 {
                assert!(w.sh.nq == 0 || w.sh.order[w.sh.nq - 1] == i, "[C07] fair: only the longest-waiting request may complete (shared future)");
            }
        }
        core::task::Poll::Pending => {
            assert!(now == w.sh.permits, "[C05] a pending poll takes no permits");
            let t = w.futs[i].wait_node.task.as_ref();
            assert!(t.is_some() && t.unwrap().will_wake(&wk), "[C06] a pending future is registered with the waker of its latest poll");
            assert!(w.sh.req[i] > 0, "[C07] a request for zero permits completes immediately (shared future)");
        }
    }
    assert!(wake_rule(&w.sh, &w.futs, i), "[C06] every request that is notified is woken exactly once through its latest waker; nobody else is woken");
    core::mem::forget(r);
}

fn check_shared_drop_future(fair: bool, st: [u8; N], queue: &[usize]) {
    let i = 0;
    let mut w = sworld(fair, st, queue);
    unsafe { slink(&mut w) };
    let served_before = head_served(&w.futs, &w.sem.state.lock(), N);
    unsafe { ManuallyDrop::drop(&mut w.futs[i]) };
    let st = w.sem.state.lock();
    assert!(!served_before || head_served(&w.futs, &st, i), "[C06] cancelling any shared future leaves the longest-waiting request served: it holds a wake-up or does not fit");
    assert!(!lv::contains(&st.waiters, &w.futs[i].wait_node), "[C01] a dropped future is no longer in the wait queue");
    assert!(st.permits == w.sh.permits, "[C05] cancelling takes and returns no permits");
    assert!(wake_rule(&w.sh, &w.futs, i), "[C06] every request notified by a cancellation is woken exactly once; nobody else is woken");
}

fn check_shared_releaser(fair: bool, st: [u8; N], queue: &[usize]) {
    let mut w = sworld(fair, st, queue);
    unsafe { slink(&mut w) };
    let p: usize = kani::any();
    kani::assume(p < 8);
    let served_before = head_served(&w.futs, &w.sem.state.lock(), N);
    let mut rel = GenericSharedSemaphoreReleaser::<NoopLock> { semaphore: w.sem.clone(), permits: p };
    let disarm: bool = kani::any();
    if disarm {
        let got = rel.disarm();
        assert!(got == p, "[C05] disarm() reports the amount it withholds");
    }
    drop(rel);
    assert!(w.sem.permits() == w.sh.permits + (if disarm { 0 } else { p }), "[C05] dropping a shared releaser returns exactly its permits exactly once (zero after disarm)");
    assert!(wake_rule(&w.sh, &w.futs, N), "[C06] every request notified when a releaser is dropped is woken exactly once; nobody else is woken");
    assert!(!served_before || head_served(&w.futs, &w.sem.state.lock(), N), "[C06] after a shared releaser is dropped the longest-waiting request is not stranded: it holds a wake-up or does not fit");
}


#[kani::proof]
fn fresh_shared_future_is_not_terminated() {
    let p0: usize = kani::any();
    let ssem = SSem::new(kani::any(), p0);
    let n: usize = kani::any();
    let sf = ssem.acquire(n);
    assert!(!sf.is_terminated(), "[C17] is_terminated() is false from creation");
    assert!(sf.wait_node.state == PollState::New && sf.wait_node.task.is_none() && sf.wait_node.required_permits == n && sf.auto_release, "[C05] [C06] a new shared acquire future asks for exactly n permits, releases them automatically, and has not started waiting");
    assert!(ssem.permits() == p0, "[C05] creating a future takes no permits");
}

/// release() through the shared handle is the state machine's release: exact permit arithmetic, notified requests really woken,
/// and the C06 outcome (a wrapper that bypasses or doubles the state machine's release is refuted)
fn check_shared_release(fair: bool, st: [u8; N], queue: &[usize]) {
    let mut w = sworld(fair, st, queue);
    unsafe { slink(&mut w) };
    let n: usize = kani::any();
    kani::assume(n < 8);
    let served_before = head_served(&w.futs, &w.sem.state.lock(), N);
    w.sem.release(n);
    assert!(w.sem.permits() == w.sh.permits + n, "[C05] release(n) through the shared handle adds exactly n permits");
    assert!(wake_rule(&w.sh, &w.futs, N), "[C06] every request notified by a release is woken exactly once through its latest waker; nobody else is woken");
    assert!(!served_before || head_served(&w.futs, &w.sem.state.lock(), N), "[C06] after release() through the shared handle the longest-waiting request is not stranded: it holds a wake-up or does not fit");
    assert!(queue_ok(fair, &w.futs, &w.sem.state.lock()), "[C01] queue consistent after release");
}

/// try_acquire() through the shared handle is the state machine's try_acquire_sync
fn check_shared_try_acquire(fair: bool, st: [u8; N], queue: &[usize]) {
    let mut w = sworld(fair, st, queue);
    unsafe { slink(&mut w) };
    let n: usize = kani::any();
    kani::assume(n < 8);
    let g = w.sem.try_acquire(n);
    match &g {
        Some(rel) => {
            assert!(w.sh.permits >= n && w.sem.permits() == w.sh.permits - n, "[C05] try_acquire(n) takes exactly n, only when n are free");
            assert!(rel.permits == n, "[C05] the releaser returns exactly the acquired amount");
            assert!(!fair || n == 0 || w.sh.nq == 0, "[C07] fair: try_acquire(n>0) succeeds only with nobody queued");
        }
        None => {
            assert!(w.sem.permits() == w.sh.permits, "[C05] a failed try_acquire takes nothing");
            assert!(n > 0, "[C07] a request for zero permits always succeeds");
            assert!(w.sh.permits < n || (fair && w.sh.nq > 0), "[C05] [C07] try_acquire fails only when the permits are missing or (fair) somebody is queued");
        }
    }
    assert!(kit::total_wakes() == 0, "[C06] try_acquire wakes nobody");
    core::mem::forget(g);
}

macro_rules! inst_t {
    ($name:ident, $check:ident ( $($arg:expr),* )) => {
        #[kani::proof]
        fn $name() {
            $check($($arg),*);
        }
    };
}
macro_rules! inst {
    ($name:ident, $check:ident ( $($arg:expr),* )) => {
        #[kani::proof]
        fn $name() {
            $check($($arg),*);
        }
    };
}
inst!(shared_poll_fair_s00_q, check_shared_poll(true, [0, 0], &[]));
inst!(shared_poll_fair_s01_q1, check_shared_poll(true, [0, 1], &[1]));
inst_t!(shared_poll_fair_s02_q1, check_shared_poll(true, [0, 2], &[1]));
inst_t!(shared_poll_fair_s03_q, check_shared_poll(true, [0, 3], &[]));
inst!(shared_poll_fair_s10_q0, check_shared_poll(true, [1, 0], &[0]));
inst!(shared_poll_fair_s11_q01, check_shared_poll(true, [1, 1], &[0, 1]));
inst!(shared_poll_fair_s11_q10, check_shared_poll(true, [1, 1], &[1, 0]));
inst_t!(shared_poll_fair_s12_q01, check_shared_poll(true, [1, 2], &[0, 1]));
inst_t!(shared_poll_fair_s13_q0, check_shared_poll(true, [1, 3], &[0]));
inst!(shared_poll_fair_s20_q0, check_shared_poll(true, [2, 0], &[0]));
inst!(shared_poll_fair_s21_q10, check_shared_poll(true, [2, 1], &[1, 0]));
inst_t!(shared_poll_fair_s23_q0, check_shared_poll(true, [2, 3], &[0]));
inst!(shared_poll_unfair_s00_q, check_shared_poll(false, [0, 0], &[]));
inst!(shared_poll_unfair_s01_q1, check_shared_poll(false, [0, 1], &[1]));
inst_t!(shared_poll_unfair_s02_q, check_shared_poll(false, [0, 2], &[]));
inst_t!(shared_poll_unfair_s03_q, check_shared_poll(false, [0, 3], &[]));
inst!(shared_poll_unfair_s10_q0, check_shared_poll(false, [1, 0], &[0]));
inst!(shared_poll_unfair_s11_q01, check_shared_poll(false, [1, 1], &[0, 1]));
inst!(shared_poll_unfair_s11_q10, check_shared_poll(false, [1, 1], &[1, 0]));
inst_t!(shared_poll_unfair_s12_q0, check_shared_poll(false, [1, 2], &[0]));
inst_t!(shared_poll_unfair_s13_q0, check_shared_poll(false, [1, 3], &[0]));
inst!(shared_poll_unfair_s20_q, check_shared_poll(false, [2, 0], &[]));
inst!(shared_poll_unfair_s21_q1, check_shared_poll(false, [2, 1], &[1]));
inst_t!(shared_poll_unfair_s22_q, check_shared_poll(false, [2, 2], &[]));
inst_t!(shared_poll_unfair_s23_q, check_shared_poll(false, [2, 3], &[]));
inst!(shared_drop_fair_s00_q, check_shared_drop_future(true, [0, 0], &[]));
inst!(shared_drop_fair_s01_q1, check_shared_drop_future(true, [0, 1], &[1]));
inst_t!(shared_drop_fair_s02_q1, check_shared_drop_future(true, [0, 2], &[1]));
inst_t!(shared_drop_fair_s03_q, check_shared_drop_future(true, [0, 3], &[]));
inst!(shared_drop_fair_s10_q0, check_shared_drop_future(true, [1, 0], &[0]));
inst!(shared_drop_fair_s11_q01, check_shared_drop_future(true, [1, 1], &[0, 1]));
inst!(shared_drop_fair_s11_q10, check_shared_drop_future(true, [1, 1], &[1, 0]));
inst_t!(shared_drop_fair_s12_q01, check_shared_drop_future(true, [1, 2], &[0, 1]));
inst_t!(shared_drop_fair_s13_q0, check_shared_drop_future(true, [1, 3], &[0]));
inst!(shared_drop_fair_s20_q0, check_shared_drop_future(true, [2, 0], &[0]));
inst!(shared_drop_fair_s21_q10, check_shared_drop_future(true, [2, 1], &[1, 0]));
inst_t!(shared_drop_fair_s23_q0, check_shared_drop_future(true, [2, 3], &[0]));
inst!(shared_drop_fair_s30_q, check_shared_drop_future(true, [3, 0], &[]));
inst!(shared_drop_fair_s31_q1, check_shared_drop_future(true, [3, 1], &[1]));
inst_t!(shared_drop_fair_s32_q1, check_shared_drop_future(true, [3, 2], &[1]));
inst_t!(shared_drop_fair_s33_q, check_shared_drop_future(true, [3, 3], &[]));
inst!(shared_drop_unfair_s00_q, check_shared_drop_future(false, [0, 0], &[]));
inst!(shared_drop_unfair_s01_q1, check_shared_drop_future(false, [0, 1], &[1]));
inst_t!(shared_drop_unfair_s02_q, check_shared_drop_future(false, [0, 2], &[]));
inst_t!(shared_drop_unfair_s03_q, check_shared_drop_future(false, [0, 3], &[]));
inst!(shared_drop_unfair_s10_q0, check_shared_drop_future(false, [1, 0], &[0]));
inst!(shared_drop_unfair_s11_q01, check_shared_drop_future(false, [1, 1], &[0, 1]));
inst!(shared_drop_unfair_s11_q10, check_shared_drop_future(false, [1, 1], &[1, 0]));
inst_t!(shared_drop_unfair_s12_q0, check_shared_drop_future(false, [1, 2], &[0]));
inst_t!(shared_drop_unfair_s13_q0, check_shared_drop_future(false, [1, 3], &[0]));
inst!(shared_drop_unfair_s20_q, check_shared_drop_future(false, [2, 0], &[]));
inst!(shared_drop_unfair_s21_q1, check_shared_drop_future(false, [2, 1], &[1]));
inst_t!(shared_drop_unfair_s22_q, check_shared_drop_future(false, [2, 2], &[]));
inst_t!(shared_drop_unfair_s23_q, check_shared_drop_future(false, [2, 3], &[]));
inst!(shared_drop_unfair_s30_q, check_shared_drop_future(false, [3, 0], &[]));
inst!(shared_drop_unfair_s31_q1, check_shared_drop_future(false, [3, 1], &[1]));
inst_t!(shared_drop_unfair_s32_q, check_shared_drop_future(false, [3, 2], &[]));
inst_t!(shared_drop_unfair_s33_q, check_shared_drop_future(false, [3, 3], &[]));
inst!(shared_releaser_fair_s00_q, check_shared_releaser(true, [0, 0], &[]));
inst!(shared_releaser_fair_s01_q1, check_shared_releaser(true, [0, 1], &[1]));
inst_t!(shared_releaser_fair_s02_q1, check_shared_releaser(true, [0, 2], &[1]));
inst_t!(shared_releaser_fair_s03_q, check_shared_releaser(true, [0, 3], &[]));
inst!(shared_releaser_fair_s11_q01, check_shared_releaser(true, [1, 1], &[0, 1]));
inst!(shared_releaser_fair_s11_q10, check_shared_releaser(true, [1, 1], &[1, 0]));
inst_t!(shared_releaser_fair_s12_q01, check_shared_releaser(true, [1, 2], &[0, 1]));
inst_t!(shared_releaser_fair_s13_q0, check_shared_releaser(true, [1, 3], &[0]));
inst_t!(shared_releaser_fair_s23_q0, check_shared_releaser(true, [2, 3], &[0]));
inst_t!(shared_releaser_fair_s33_q, check_shared_releaser(true, [3, 3], &[]));
inst!(shared_releaser_unfair_s00_q, check_shared_releaser(false, [0, 0], &[]));
inst!(shared_releaser_unfair_s01_q1, check_shared_releaser(false, [0, 1], &[1]));
inst_t!(shared_releaser_unfair_s02_q, check_shared_releaser(false, [0, 2], &[]));
inst_t!(shared_releaser_unfair_s03_q, check_shared_releaser(false, [0, 3], &[]));
inst!(shared_releaser_unfair_s11_q01, check_shared_releaser(false, [1, 1], &[0, 1]));
inst!(shared_releaser_unfair_s11_q10, check_shared_releaser(false, [1, 1], &[1, 0]));
inst_t!(shared_releaser_unfair_s12_q0, check_shared_releaser(false, [1, 2], &[0]));
inst_t!(shared_releaser_unfair_s13_q0, check_shared_releaser(false, [1, 3], &[0]));
inst_t!(shared_releaser_unfair_s22_q, check_shared_releaser(false, [2, 2], &[]));
inst_t!(shared_releaser_unfair_s23_q, check_shared_releaser(false, [2, 3], &[]));
inst_t!(shared_releaser_unfair_s33_q, check_shared_releaser(false, [3, 3], &[]));
inst!(shared_release_fair_s00_q, check_shared_release(true, [0, 0], &[]));
inst!(shared_release_fair_s01_q1, check_shared_release(true, [0, 1], &[1]));
inst!(shared_release_fair_s02_q1, check_shared_release(true, [0, 2], &[1]));
inst!(shared_release_fair_s03_q, check_shared_release(true, [0, 3], &[]));
inst!(shared_release_fair_s11_q01, check_shared_release(true, [1, 1], &[0, 1]));
inst!(shared_release_fair_s11_q10, check_shared_release(true, [1, 1], &[1, 0]));
inst!(shared_release_fair_s12_q01, check_shared_release(true, [1, 2], &[0, 1]));
inst!(shared_release_fair_s13_q0, check_shared_release(true, [1, 3], &[0]));
inst!(shared_release_fair_s23_q0, check_shared_release(true, [2, 3], &[0]));
inst!(shared_release_fair_s33_q, check_shared_release(true, [3, 3], &[]));
inst!(shared_release_unfair_s00_q, check_shared_release(false, [0, 0], &[]));
inst!(shared_release_unfair_s01_q1, check_shared_release(false, [0, 1], &[1]));
inst!(shared_release_unfair_s02_q, check_shared_release(false, [0, 2], &[]));
inst!(shared_release_unfair_s03_q, check_shared_release(false, [0, 3], &[]));
inst!(shared_release_unfair_s11_q01, check_shared_release(false, [1, 1], &[0, 1]));
inst!(shared_release_unfair_s11_q10, check_shared_release(false, [1, 1], &[1, 0]));
inst!(shared_release_unfair_s12_q0, check_shared_release(false, [1, 2], &[0]));
inst!(shared_release_unfair_s13_q0, check_shared_release(false, [1, 3], &[0]));
inst!(shared_release_unfair_s22_q, check_shared_release(false, [2, 2], &[]));
inst!(shared_release_unfair_s23_q, check_shared_release(false, [2, 3], &[]));
inst!(shared_release_unfair_s33_q, check_shared_release(false, [3, 3], &[]));
inst!(shared_try_acquire_fair_s00_q, check_shared_try_acquire(true, [0, 0], &[]));
inst!(shared_try_acquire_fair_s01_q1, check_shared_try_acquire(true, [0, 1], &[1]));
inst!(shared_try_acquire_fair_s02_q1, check_shared_try_acquire(true, [0, 2], &[1]));
inst!(shared_try_acquire_fair_s03_q, check_shared_try_acquire(true, [0, 3], &[]));
inst!(shared_try_acquire_fair_s11_q01, check_shared_try_acquire(true, [1, 1], &[0, 1]));
inst!(shared_try_acquire_fair_s11_q10, check_shared_try_acquire(true, [1, 1], &[1, 0]));
inst!(shared_try_acquire_fair_s12_q01, check_shared_try_acquire(true, [1, 2], &[0, 1]));
inst!(shared_try_acquire_fair_s13_q0, check_shared_try_acquire(true, [1, 3], &[0]));
inst!(shared_try_acquire_fair_s23_q0, check_shared_try_acquire(true, [2, 3], &[0]));
inst!(shared_try_acquire_fair_s33_q, check_shared_try_acquire(true, [3, 3], &[]));
inst!(shared_try_acquire_unfair_s00_q, check_shared_try_acquire(false, [0, 0], &[]));
inst!(shared_try_acquire_unfair_s01_q1, check_shared_try_acquire(false, [0, 1], &[1]));
inst!(shared_try_acquire_unfair_s02_q, check_shared_try_acquire(false, [0, 2], &[]));
inst!(shared_try_acquire_unfair_s03_q, check_shared_try_acquire(false, [0, 3], &[]));
inst!(shared_try_acquire_unfair_s11_q01, check_shared_try_acquire(false, [1, 1], &[0, 1]));
inst!(shared_try_acquire_unfair_s11_q10, check_shared_try_acquire(false, [1, 1], &[1, 0]));
inst!(shared_try_acquire_unfair_s12_q0, check_shared_try_acquire(false, [1, 2], &[0]));
inst!(shared_try_acquire_unfair_s13_q0, check_shared_try_acquire(false, [1, 3], &[0]));
inst!(shared_try_acquire_unfair_s22_q, check_shared_try_acquire(false, [2, 2], &[]));
inst!(shared_try_acquire_unfair_s23_q, check_shared_try_acquire(false, [2, 3], &[]));
inst!(shared_try_acquire_unfair_s33_q, check_shared_try_acquire(false, [3, 3], &[]));
