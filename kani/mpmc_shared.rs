//! Kani harnesses for the shared handles of src/channel/mpmc.rs (hooked inside `if_alloc::shared`): lifecycle C11.
//! GROUP: mpmc_shared
//! MODULE: channel::mpmc::if_alloc::shared::kani_verif_shared
//! TAGS: C01 C08 C09 C10 C11 C17 C18
//! N: quick=4 thorough=4
//! UNWIND_EXTRA: 3
//! KIND: harness (loop-free handle code; full-domain handle counters)
//! BOUNDED: clone: full usize domain of the handle counter; drop: counter values 1, 2, isize::MAX; capacity 2; at most one future waiting
//! clone/drop of the handles are loop-free, so a symbolic counter over the whole usize range makes each of these a
//! complete check of the function; "count == number of live handles" then follows by induction over clone/drop.
use super::*;
#[path = "/verif/kani/kit.rs"]
mod kit;
use crate::buffer::ArrayBuf;
use core::sync::atomic::Ordering;
use futures_core::stream::{FusedStream, Stream};

type S = GenericSender<NoopLock, u8, ArrayBuf<u8, [u8; 2]>>;
type R = GenericReceiver<NoopLock, u8, ArrayBuf<u8, [u8; 2]>>;

fn pair() -> (S, R) {
    generic_channel::<NoopLock, u8, ArrayBuf<u8, [u8; 2]>>(2)
}
fn closed(s: &S) -> bool {
    s.inner.channel.inner.lock().is_closed
}

/// the constructor: one live handle per side, channel open and empty -- "count == number of live handles" holds from the start
#[kani::proof]
fn fresh_pair_counts_one_handle_per_side() {
    let (s, r) = pair();
    assert!(s.inner.senders.load(Ordering::Relaxed) == 1, "[C11] a new shared channel counts exactly one sender handle");
    assert!(s.inner.receivers.load(Ordering::Relaxed) == 1, "[C11] a new shared channel counts exactly one receiver handle");
    assert!(!closed(&s), "[C11] a new shared channel is open");
    assert!(s.inner.channel.inner.lock().buffer.capacity() == 2, "[C09] the requested capacity is the channel's capacity");
    core::mem::forget((s, r));
}

/// try_send / try_receive through the shared handles are the channel's: the waker they get back is really woken
#[kani::proof]
fn shared_try_send_wakes_the_pending_receiver() {
    use core::future::Future;
    let (s, r) = pair();
    let w0 = kit::waker(0);
    let mut cx = core::task::Context::from_waker(&w0);
    let mut rf = core::mem::ManuallyDrop::new(r.receive());
    let p = unsafe { core::pin::Pin::new_unchecked(&mut *rf) }.poll(&mut cx);
    assert!(p.is_pending());
    let v: u8 = kani::any();
    let res = s.try_send(v);
    assert!(res.is_ok(), "[C09] try_send succeeds on an open channel with room");
    assert!(kit::wakes(0) == 1 && kit::total_wakes() == 1, "[C10] a value sent through the shared sender's try_send wakes the pending receiver exactly once, through its latest waker");
    let p = unsafe { core::pin::Pin::new_unchecked(&mut *rf) }.poll(&mut cx);
    assert!(matches!(p, core::task::Poll::Ready(Some(x)) if x == v), "[C08] the woken receiver gets exactly that value");
    core::mem::forget((s, r));
}

#[kani::proof]
fn shared_try_receive_wakes_the_pending_sender() {
    use core::future::Future;
    let (s, r) = pair();
    let _ = s.try_send(1);
    let _ = s.try_send(2);
    let w1 = kit::waker(1);
    let mut cx = core::task::Context::from_waker(&w1);
    let mut sf = core::mem::ManuallyDrop::new(s.send(3));
    let p = unsafe { core::pin::Pin::new_unchecked(&mut *sf) }.poll(&mut cx);
    assert!(p.is_pending(), "[C09] a send on a full channel waits");
    let got = r.try_receive();
    assert!(matches!(got, Ok(1)), "[C09] [C08] try_receive through the shared receiver returns the oldest value");
    assert!(kit::wakes(1) == 1 && kit::total_wakes() == 1, "[C10] the parked sender whose value was accepted is woken exactly once, through its latest waker");
    core::mem::forget((s, r));
}

/// values first: whatever else goes wrong in the handle bookkeeping, dropping ONE of several receiver handles must not lose
/// a buffered value that the others can still reach (kept separate so that no earlier assertion can mask it)
#[kani::proof]
fn dropping_a_receiver_clone_keeps_buffered_values() {
    let (s, r) = pair();
    let v: u8 = kani::any();
    let _ = s.try_send(v);
    let c = r.clone();
    drop(c);
    assert!(s.inner.channel.inner.lock().buffer.len() == 1, "[C08] buffered values are never discarded while another receiver can still reach them");
    assert!(matches!(r.try_receive(), Ok(x) if x == v), "[C08] ... and the remaining receiver still gets exactly that value");
    core::mem::forget((s, r));
}

/// C01 for the shared flavour: waiting shared futures that are dropped leave the channel's wait queues (their Drop forwards to
/// the channel): nothing of them is reached, woken or delivered afterwards
#[kani::proof]
fn shared_receive_future_dropped_while_waiting_leaves_the_queue() {
    use core::future::Future;
    let (s, r) = pair();
    let w0 = kit::waker(0);
    let mut cx = core::task::Context::from_waker(&w0);
    let mut rf = core::mem::ManuallyDrop::new(r.receive());
    let p = unsafe { core::pin::Pin::new_unchecked(&mut *rf) }.poll(&mut cx);
    assert!(p.is_pending() && !s.inner.channel.inner.lock().receive_waiters.is_empty(), "[C01] a pending shared receive future is queued");
    unsafe { core::mem::ManuallyDrop::drop(&mut rf) };
    assert!(s.inner.channel.inner.lock().receive_waiters.is_empty(), "[C01] a dropped shared receive future is no longer in the wait queue");
    let _ = s.try_send(1);
    assert!(kit::total_wakes() == 0, "[C01] [C10] a dropped future is not woken");
    core::mem::forget((s, r));
}

#[kani::proof]
fn shared_send_future_dropped_while_waiting_leaves_the_queue() {
    use core::future::Future;
    let (s, r) = pair();
    let _ = s.try_send(1);
    let _ = s.try_send(2);
    let w1 = kit::waker(1);
    let mut cx = core::task::Context::from_waker(&w1);
    let mut sf = core::mem::ManuallyDrop::new(s.send(3));
    let p = unsafe { core::pin::Pin::new_unchecked(&mut *sf) }.poll(&mut cx);
    assert!(p.is_pending() && !s.inner.channel.inner.lock().send_waiters.is_empty(), "[C01] a send future on a full channel is queued");
    unsafe { core::mem::ManuallyDrop::drop(&mut sf) };
    assert!(s.inner.channel.inner.lock().send_waiters.is_empty(), "[C01] a dropped shared send future is no longer in the wait queue");
    let a = r.try_receive();
    let b = r.try_receive();
    let c = r.try_receive();
    assert!(matches!(a, Ok(1)) && matches!(b, Ok(2)) && c.is_err(), "[C08] the value of a cancelled send is not delivered; the accepted ones are, in order");
    assert!(kit::total_wakes() == 0, "[C01] [C10] a dropped future is not woken");
    core::mem::forget((s, r));
}

/// close() through the shared handles is the channel's close: permanent, NewlyClosed exactly once whichever handle is used
#[kani::proof]
fn shared_close_through_either_handle_closes_the_channel_once() {
    let (s, r) = pair();
    let via_sender: bool = kani::any();
    let first = if via_sender { s.close() } else { r.close() };
    assert!(first.is_newly_closed() && closed(&s), "[C11] close() through a shared handle closes the channel and reports NewlyClosed");
    let via_sender_again: bool = kani::any();
    let second = if via_sender_again { s.close() } else { r.close() };
    assert!(second.is_already_closed() && closed(&s), "[C11] close() is permanent and idempotent through either handle: AlreadyClosed afterwards");
    assert!(matches!(s.try_send(9), Err(TrySendError::Closed(9))), "[C11] [C08] after close every send attempt fails and returns the caller's own value");
    core::mem::forget((s, r));
}

#[kani::proof]
fn sender_clone_and_drop_count_handles() {
    let (s, r) = pair();
    let n: usize = kani::any();
    kani::assume(n >= 1 && n <= isize::MAX as usize);
    s.inner.senders.store(n, Ordering::Relaxed);
    let c = s.clone();
    assert!(s.inner.senders.load(Ordering::Relaxed) == n + 1, "[C11] cloning a sender counts one more live sender handle");
    assert!(!closed(&s), "[C11] cloning never closes");
    drop(c);
    assert!(s.inner.senders.load(Ordering::Relaxed) == n, "[C11] dropping a sender counts one less");
    assert!(!closed(&s), "[C11] the channel stays open while a handle of each side is alive");
    core::mem::forget((s, r));
}

/// the drop paths are checked for representative counter values (the code only tests `== 1`): 1, 2, isize::MAX
fn check_last_sender_drop(n: usize) {
    let (s, r) = pair();
    s.inner.senders.store(n, Ordering::Relaxed);
    assert!(r.try_receive().is_err());
    let _ = s.try_send(7);
    let probe = r.inner.clone();
    drop(s);
    assert!(probe.channel.inner.lock().is_closed == (n == 1), "[C11] the channel closes implicitly exactly when the LAST sender handle is dropped");
    assert!(probe.channel.inner.lock().buffer.len() == 1, "[C11] [C08] values accepted before the implicit close stay receivable");
    core::mem::forget(r);
}

fn check_receiver_clone_and_last_drop(n: usize) {
    let (s, r) = pair();
    r.inner.receivers.store(n, Ordering::Relaxed);
    let c = r.clone();
    assert!(r.inner.receivers.load(Ordering::Relaxed) == n + 1 && !closed(&s), "[C11] cloning a receiver counts one more live receiver handle and never closes");
    drop(c);
    assert!(r.inner.receivers.load(Ordering::Relaxed) == n && !closed(&s), "[C11] the channel stays open while a handle of each side is alive");
    let _ = s.try_send(7);
    // the channel may already have been closed explicitly (its buffered values stay receivable until the last receiver goes)
    let pre_closed: bool = kani::any();
    if pre_closed {
        let _ = s.close();
    }
    drop(r);
    // (the value check comes first: after a failed assert! nothing later on the path is checked, and losing a value that a
    // live receiver could still reach is a C08 violation whatever the reason)
    let left = s.inner.channel.inner.lock().buffer.len();
    if n == 1 {
        assert!(left == 0, "[C11] dropping the last receiver discards the buffered values immediately");
    } else {
        assert!(left == 1, "[C08] [C11] buffered values are never discarded while another receiver can still reach them");
    }
    assert!(closed(&s) == (n == 1 || pre_closed), "[C11] the channel closes implicitly exactly when the LAST receiver handle is dropped");
    core::mem::forget(s);
}

#[kani::proof]
#[kani::should_panic]
fn sender_clone_overflow_panics() {
    let (s, r) = pair();
    s.inner.senders.store(isize::MAX as usize + 1, Ordering::Relaxed);
    let c = s.clone();
    core::mem::forget((s, r, c));
}

// (A pending receive future that outlives both handles -- and the full scenario "pending receive, send, receive" in ONE
// harness -- need 25 to 40+ GB in CBMC and are not run.  Decided in pieces instead: shared_receive_pending_keeps_its_handle,
// shared_send_then_receive_complete_once, last_sender_drop_* / receiver_clone_and_last_drop_* (implicit close), and the
// future's poll on a closed channel by Verus (chanfut_shared_glue + mpmc).)

unsafe fn nw_clone(_: *const ()) -> core::task::RawWaker {
    core::task::RawWaker::new(core::ptr::null(), &NOOP)
}
unsafe fn nw_noop(_: *const ()) {}
static NOOP: core::task::RawWakerVTable = core::task::RawWakerVTable::new(nw_clone, nw_noop, nw_noop, nw_noop);

// (yield / pend / end-after-the-last-sender-dropped in ONE harness needs 25 to 40+ GB in CBMC and is not run:
// shared_stream_yields_then_pends, shared_stream_ends_after_close and last_sender_drop_* decide the pieces.)

#[kani::proof]
fn last_sender_drop_n1() {
    check_last_sender_drop(1);
}
#[kani::proof]
fn last_sender_drop_n2() {
    check_last_sender_drop(2);
}
#[kani::proof]
fn last_sender_drop_nmax() {
    check_last_sender_drop(isize::MAX as usize);
}
#[kani::proof]
fn receiver_clone_and_last_drop_n1() {
    check_receiver_clone_and_last_drop(1);
}
#[kani::proof]
fn receiver_clone_and_last_drop_n2() {
    check_receiver_clone_and_last_drop(2);
}
#[kani::proof]
fn receiver_clone_and_last_drop_nmax() {
    check_receiver_clone_and_last_drop(isize::MAX as usize - 1);
}

fn noop_cx_waker() -> core::task::Waker {
    unsafe { core::task::Waker::from_raw(core::task::RawWaker::new(core::ptr::null(), &NOOP)) }
}

#[kani::proof]
#[kani::stub(alloc::alloc::alloc, kit::no_alloc)]
#[kani::stub(alloc::alloc::dealloc, kit::no_dealloc)]
fn shared_receive_pending_keeps_its_handle() {
    use core::future::Future;
    use futures_core::future::FusedFuture;
    let (s, r) = pair();
    let wk = noop_cx_waker();
    let mut cx = core::task::Context::from_waker(&wk);
    let mut rf = core::mem::ManuallyDrop::new(r.receive());
    assert!(!rf.is_terminated(), "[C17] is_terminated() is false from creation");
    let p = unsafe { core::pin::Pin::new_unchecked(&mut *rf) }.poll(&mut cx);
    assert!(p.is_pending() && !rf.is_terminated(), "[C17] a pending shared receive future is not terminated (it puts its handle back)");
    core::mem::forget((s, r));
}

#[kani::proof]
#[kani::stub(alloc::alloc::alloc, kit::no_alloc)]
#[kani::stub(alloc::alloc::dealloc, kit::no_dealloc)]
fn shared_send_then_receive_complete_once() {
    use core::future::Future;
    use futures_core::future::FusedFuture;
    let (s, r) = pair();
    let wk = noop_cx_waker();
    let mut cx = core::task::Context::from_waker(&wk);
    let v: u8 = kani::any();
    kit::arm(); // creating and polling shared futures clones / releases Arc handles but must not allocate or free (C18)
    let mut sf = core::mem::ManuallyDrop::new(s.send(v));
    assert!(!sf.is_terminated(), "[C17] is_terminated() is false from creation");
    let p = unsafe { core::pin::Pin::new_unchecked(&mut *sf) }.poll(&mut cx);
    assert!(p.is_ready() && sf.is_terminated(), "[C17] a completed shared send future is terminated");
    let mut rf = core::mem::ManuallyDrop::new(r.receive());
    let p = unsafe { core::pin::Pin::new_unchecked(&mut *rf) }.poll(&mut cx);
    kit::disarm();
    assert!(matches!(p, core::task::Poll::Ready(Some(x)) if x == v) && rf.is_terminated(), "[C17] [C08] the shared receive future completes once, with the value that was sent");
    core::mem::forget((s, r));
}

#[kani::proof]
#[kani::stub(alloc::alloc::alloc, kit::no_alloc)]
#[kani::stub(alloc::alloc::dealloc, kit::no_dealloc)]
fn shared_stream_yields_then_pends() {
    let (s, r) = pair();
    let wk = noop_cx_waker();
    let mut cx = core::task::Context::from_waker(&wk);
    let v: u8 = kani::any();
    let _ = s.try_send(v);
    let mut st = core::mem::ManuallyDrop::new(r.into_stream());
    assert!(!st.is_terminated(), "[C17] a new stream is not terminated");
    kit::arm(); // receiving an item through the stream must not allocate or free (C18)
    let p = unsafe { core::pin::Pin::new_unchecked(&mut *st) }.poll_next(&mut cx);
    kit::disarm();
    assert!(matches!(p, core::task::Poll::Ready(Some(x)) if x == v) && !st.is_terminated(), "[C17] a stream yields exactly the values successive receives would");
    core::mem::forget(s);
}

// TIER: thorough heavy (18 GB, 6 min: run on its own after the other harnesses)
#[kani::proof]
fn shared_stream_ends_after_close() {
    let (s, r) = pair();
    let wk = noop_cx_waker();
    let mut cx = core::task::Context::from_waker(&wk);
    let _ = s.close();
    let mut st = core::mem::ManuallyDrop::new(r.into_stream());
    let p = unsafe { core::pin::Pin::new_unchecked(&mut *st) }.poll_next(&mut cx);
    assert!(matches!(p, core::task::Poll::Ready(None)) && st.is_terminated(), "[C17] [C11] the stream ends once the channel is closed and drained, and reports terminated");
    let p = unsafe { core::pin::Pin::new_unchecked(&mut *st) }.poll_next(&mut cx);
    assert!(matches!(p, core::task::Poll::Ready(None)) && st.is_terminated(), "[C17] a finished stream stays finished");
    core::mem::forget(s);
}
