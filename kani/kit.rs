//! Shared harness kit (included with #[path] by every per-module Kani file): counting wakers, wake log,
//! allocation guard.  Compiled only under cfg(kani).
#![allow(dead_code, static_mut_refs)]
use core::task::{RawWaker, RawWakerVTable, Waker};

pub const NW: usize = 6;
/// number of wake()/wake_by_ref() invocations per waker identity
pub static mut WAKES: [u8; NW] = [0; NW];
/// order of invocations
pub static mut LOG: [u8; 8] = [0xff; 8];
pub static mut LOG_LEN: usize = 0;
/// set while a library call must not allocate or free heap memory (C18)
pub static mut ARMED: bool = false;

unsafe fn w_clone(p: *const ()) -> RawWaker {
    RawWaker::new(p, &VTABLE)
}
unsafe fn w_wake(p: *const ()) {
    let i = p as usize;
    assert!(i >= 1 && i <= NW);
    WAKES[i - 1] += 1;
    if LOG_LEN < 8 {
        LOG[LOG_LEN] = (i - 1) as u8;
        LOG_LEN += 1;
    }
}
unsafe fn w_drop(_p: *const ()) {}
static VTABLE: RawWakerVTable = RawWakerVTable::new(w_clone, w_wake, w_wake, w_drop);

/// waker with identity i (0-based); two wakers are `will_wake`-equal iff their identities are equal
pub fn waker(i: usize) -> Waker {
    assert!(i < NW);
    unsafe { Waker::from_raw(RawWaker::new((i + 1) as *const (), &VTABLE)) }
}
pub fn waker_id(w: &Waker) -> usize {
    let mut r = NW;
    let mut i = 0;
    while i < NW {
        if w.will_wake(&waker(i)) {
            r = i;
        }
        i += 1;
    }
    r
}
pub fn wakes(i: usize) -> u8 {
    unsafe { WAKES[i] }
}
pub fn total_wakes() -> usize {
    let mut s = 0usize;
    let mut i = 0;
    while i < NW {
        s += unsafe { WAKES[i] } as usize;
        i += 1;
    }
    s
}
pub fn log_len() -> usize {
    unsafe { LOG_LEN }
}
pub fn log(i: usize) -> usize {
    unsafe { LOG[i] as usize }
}
pub fn arm() {
    unsafe { ARMED = true }
}
pub fn disarm() {
    unsafe { ARMED = false }
}

// ---- allocator stubs (used with #[kani::stub(alloc::alloc::..., kit::no_...)]) ----
pub unsafe fn no_alloc(layout: core::alloc::Layout) -> *mut u8 {
    assert!(!ARMED, "[C18] heap allocation inside a library call");
    extern "Rust" {
        fn __rust_alloc(size: usize, align: usize) -> *mut u8;
    }
    __rust_alloc(layout.size(), layout.align())
}
pub unsafe fn no_dealloc(ptr: *mut u8, layout: core::alloc::Layout) {
    assert!(!ARMED, "[C18] heap deallocation inside a library call");
    extern "Rust" {
        fn __rust_dealloc(ptr: *mut u8, size: usize, align: usize);
    }
    __rust_dealloc(ptr, layout.size(), layout.align())
}

pub unsafe fn no_realloc(ptr: *mut u8, layout: core::alloc::Layout, new_size: usize) -> *mut u8 {
    assert!(!ARMED, "[C18] heap reallocation inside a library call");
    extern "Rust" {
        fn __rust_realloc(ptr: *mut u8, old_size: usize, align: usize, new_size: usize) -> *mut u8;
    }
    __rust_realloc(ptr, layout.size(), layout.align(), new_size)
}

pub fn any_lt(max: usize) -> usize {
    let k: usize = kani::any();
    kani::assume(k < max);
    k
}
