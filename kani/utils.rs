//! Kani harness for src/utils/mod.rs: `update_waker_ref` (assumed by every Verus unit: ledger A8 / DESIGN 3.3).
//! GROUP: utils
//! MODULE: utils::kani_verif
//! TAGS: C01 C03 C06 C10 C12 C13 C14 C15
//! N: quick=4 thorough=4
//! UNWIND_EXTRA: 3
//! KIND: harness (loop-free; all combinations of stored / polling waker identity: a complete check of the function)
//! BOUNDED: none (loop-free, two symbolic waker identities)
use super::*;
#[path = "/verif/kani/kit.rs"]
mod kit;

/// the contract Verus assumes: afterwards a waker is stored and it is the one of this poll
#[kani::proof]
fn update_waker_ref_stores_the_waker_of_this_poll() {
    let a = kit::any_lt(2);
    let b = kit::any_lt(2);
    let mut stored: Option<core::task::Waker> = if kani::any() { Some(kit::waker(a)) } else { None };
    let wk = kit::waker(b);
    let cx = Context::from_waker(&wk);
    update_waker_ref(&mut stored, &cx);
    assert!(stored.is_some() && stored.as_ref().unwrap().will_wake(&wk), "[C03] [C06] [C10] [C12] [C13] [C14] [C15] after a re-poll the stored waker is the waker of that poll");
    assert!(kit::waker_id(stored.as_ref().unwrap()) == b, "[C03] [C06] [C10] [C12] [C13] [C14] [C15] ... and no other");
    assert!(kit::total_wakes() == 0, "[C03] updating a waker wakes nobody");
}
