//! Kani harnesses for src/sync/mutex.rs (glue L2 + wake events).  DESIGN.md 5 C01/C02/C03/C04/C17/C18.
//! GROUP: mutex
//! MODULE: sync::mutex::kani_verif
//! TAGS: C01 C02 C03 C04 C17 C18
//! N: quick=4 thorough=4
//! UNWIND_EXTRA: 3
//! KIND: harness (concrete queue shape and fairness, symbolic remaining state)
//! BOUNDED: N lock futures; every queue shape enumerated
//! From EVERY pre-state that satisfies the unit's representation invariant with N lock futures (every queue order,
//! both fairness modes, locked or free, every poll state of the futures outside the queue) the REAL poll / drop /
//! try_lock / guard drop / is_locked / is_terminated are executed once.  The transitions of `MutexState` are proved
//! for all queue lengths by Verus (unit `mutex`); these harnesses decide the glue, the invocation of wakers and the
//! memory safety of the real unsafe code on these shapes.
use super::*;
#[path = "/verif/kani/kit.rs"]
mod kit;
use crate::intrusive_double_linked_list::kani_verif as lv;
use core::mem::ManuallyDrop;
use core::task::Context;

pub const N: usize = 2;
type Mx = GenericMutex<NoopLock, u8>;
type Fut = GenericMutexLockFuture<'static, NoopLock, u8>;

pub struct World {
    mx: Mx,
    futs: [ManuallyDrop<Fut>; N],
    /// abstract state per future: 0 New, 1 Waiting (queued), 2 Notified (fair: queued as the oldest; unfair: outside
    /// the queue, holding the wake-up), 3 terminated (Done, handle cleared)
    st: [u8; N],
    order: [usize; N],
    nq: usize,
    fair: bool,
}

fn world(fair: bool) -> World {
    let mx = Mx::new(kani::any(), fair);
    let mp: &'static Mx = unsafe { &*(&mx as *const Mx) }; // re-pointed by link()
    World { futs: core::array::from_fn(|_| ManuallyDrop::new(mp.lock())), mx, st: [0; N], order: [0; N], nq: 0, fair }
}

/// turns the world into an arbitrary invariant-satisfying pre-state; `queue` (front/newest first) is concrete
unsafe fn link(w: &mut World, queue: &[usize]) {
    let mp: &'static Mx = &*(&w.mx as *const Mx);
    let locked: bool = kani::any();
    let mut i = 0;
    while i < N {
        let mut pos = N;
        let mut q = 0;
        while q < queue.len() {
            if queue[q] == i {
                pos = q;
            }
            q += 1;
        }
        let s: u8 = if pos < N {
            // fair: the oldest queued waiter holds the notification exactly while the mutex is free (inv_n)
            if w.fair && pos == queue.len() - 1 && !locked { 2 } else { 1 }
        } else {
            let s: u8 = kani::any();
            kani::assume(s == 0 || s == 3 || (s == 2 && !w.fair));
            s
        };
        w.st[i] = s;
        let f = &mut *w.futs[i];
        f.mutex = if s == 3 { None } else { Some(mp) };
        f.wait_node.state = match s {
            0 => PollState::New,
            1 => PollState::Waiting,
            2 => PollState::Notified,
            _ => PollState::Done,
        };
        // a queued Waiting entry holds the waker of its latest poll; a notified one had it taken
        f.wait_node.task = if s == 1 { Some(kit::waker(i)) } else { None };
        i += 1;
    }
    w.nq = queue.len();
    let mut q = 0;
    while q < queue.len() {
        w.order[q] = queue[q];
        q += 1;
    }
    let mut st = w.mx.state.lock();
    st.is_locked = locked;
    let mut q = w.nq;
    while q > 0 {
        q -= 1;
        let n: *mut ListNode<WaitQueueEntry> = &mut w.futs[w.order[q]].wait_node;
        st.waiters.add_front(&mut *n);
    }
}

fn linked(w: &World, i: usize) -> bool {
    let st = w.mx.state.lock();
    lv::contains(&st.waiters, &w.futs[i].wait_node)
}
fn node_state(w: &World, i: usize) -> u8 {
    match w.futs[i].wait_node.state {
        PollState::New => 0,
        PollState::Waiting => 1,
        PollState::Notified => 2,
        PollState::Done => 3,
    }
}
/// the queue is well formed and contains exactly the futures that are waiting (Waiting, or fair+Notified), each once
fn queue_ok(w: &World) -> bool {
    let st = w.mx.state.lock();
    let mut ok = lv::wf(&st.waiters);
    let mut expect = 0;
    let mut i = 0;
    while i < N {
        let s = node_state(w, i);
        let should = s == 1 || (s == 2 && w.fair);
        if should {
            expect += 1;
        }
        if should != lv::contains(&st.waiters, &w.futs[i].wait_node) {
            ok = false;
        }
        i += 1;
    }
    ok && lv::len(&st.waiters) == expect
}
fn oldest(w: &World) -> usize {
    w.order[w.nq - 1]
}

fn check_poll(fair: bool, queue: &[usize]) {
    let i = 0;
    let mut w = world(fair);
    unsafe { link(&mut w, queue) };
    assert!(queue_ok(&w));
    kani::assume(w.st[i] != 3); // caller contract: no poll after completion
    let wk = kit::waker(N + kit::any_lt(2));
    let mut cx = Context::from_waker(&wk);
    let was_locked = w.mx.is_locked();
    let was_queued = linked(&w, i);
    let q0 = lv::view(&w.mx.state.lock().waiters);
    kit::arm();
    let r = unsafe { core::pin::Pin::new_unchecked(&mut *w.futs[i]) }.poll(&mut cx);
    let term = w.futs[i].is_terminated();
    kit::disarm();
    assert!(r.is_ready() == term, "[C17] is_terminated() must be true exactly after Ready");
    assert!(queue_ok(&w), "[C01] queue must contain exactly the live waiting futures");
    if r.is_ready() {
        assert!(!was_locked, "[C02] a lock attempt completes only while no guard is alive");
        assert!(w.mx.is_locked(), "[C02] is_locked() is true while the guard is alive");
        if fair {
            assert!(w.nq == 0 || oldest(&w) == i, "[C04] fair: only the longest-waiting future may complete");
        }
    } else {
        assert!(w.mx.is_locked() == was_locked, "[C02] a pending poll does not change the lock");
        let t = w.futs[i].wait_node.task.as_ref();
        assert!(t.is_some() && t.unwrap().will_wake(&wk), "[C03] a pending future is registered with the waker of its latest poll");
        assert!(linked(&w, i), "[C03] a pending future is queued");
        // (lesson of seeded change C09_r71, applied to every primitive: a re-poll -- with whatever waker -- must not re-queue)
        let q1 = lv::view(&w.mx.state.lock().waiters);
        if was_queued {
            assert!(lv::same(q0, q1), "[C04] re-polling a waiting lock future does not change its place in the order of arrival");
        } else {
            assert!(lv::same(lv::pushed_front(q0, lv::addr(&w.futs[i].wait_node)), q1), "[C04] a future that starts waiting takes the youngest place; the others keep theirs");
        }
    }
    assert!(kit::total_wakes() == 0, "[C03] polling wakes nobody");
    // keep the guard alive (no unlock) -- its Drop is checked separately
    core::mem::forget(r);
}

fn check_poll_after_completion(fair: bool, queue: &[usize]) {
    let mut w = world(fair);
    unsafe { link(&mut w, queue) };
    kani::assume(w.st[0] == 3);
    let wk = kit::waker(N);
    let mut cx = Context::from_waker(&wk);
    let r = unsafe { core::pin::Pin::new_unchecked(&mut *w.futs[0]) }.poll(&mut cx);
    core::mem::forget(r);
}

fn check_drop_future(fair: bool, queue: &[usize]) {
    let i = 0;
    let mut w = world(fair);
    unsafe { link(&mut w, queue) };
    let was_locked = w.mx.is_locked();
    let held_wakeup = w.st[i] == 2;
    // who must inherit the wake-up: the oldest waiter that remains queued
    let mut heir = N;
    let mut q = 0;
    while q < w.nq {
        if w.order[q] != i {
            heir = w.order[q];
        }
        q += 1;
    }
    kit::arm();
    unsafe { ManuallyDrop::drop(&mut w.futs[i]) };
    kit::disarm();
    assert!(!linked(&w, i), "[C01] a dropped future is no longer in the wait queue");
    assert!(w.mx.is_locked() == was_locked, "[C02] cancelling never changes the lock");
    if held_wakeup && heir < N {
        assert!(kit::wakes(heir) == 1 && kit::total_wakes() == 1, "[C03] a woken future that is dropped passes the wake-up to the longest-waiting one, through its latest waker");
        assert!(node_state(&w, heir) == 2, "[C03] the heir holds the notification");
    } else {
        // (one assertion per mode: after a failed assert! nothing later on the path is checked)
        if fair {
            assert!(kit::total_wakes() == 0, "[C03] [C04] fair: cancelling a future that held no wake-up wakes nobody and does not disturb the others (nobody is handed a turn)");
        } else {
            assert!(kit::total_wakes() == 0, "[C03] nobody else is woken by a cancellation");
        }
    }
    let mut j = 0;
    while j < N {
        if j != i && !(held_wakeup && j == heir && !fair) {
            assert!(linked(&w, j) == (w.st[j] == 1 || (w.st[j] == 2 && fair)), "[C04] cancelling does not disturb the other waiters");
        }
        j += 1;
    }
}

fn check_guard_drop(fair: bool, queue: &[usize]) {
    let mut w = world(fair);
    unsafe { link(&mut w, queue) };
    kani::assume(w.mx.is_locked());
    let mp: &'static Mx = unsafe { &*(&w.mx as *const Mx) };
    let guard = GenericMutexGuard::<'static, NoopLock, u8> { mutex: mp };
    kit::arm();
    drop(guard);
    kit::disarm();
    assert!(!w.mx.is_locked(), "[C02] is_locked() is false once the guard is gone");
    if w.nq > 0 {
        let o = oldest(&w);
        assert!(kit::wakes(o) == 1 && kit::total_wakes() == 1, "[C03] unlock wakes the longest-waiting future exactly once through its latest waker");
        assert!(node_state(&w, o) == 2, "[C03] the woken future holds the notification");
        assert!(linked(&w, o) == fair, "[C04] fair: the notified waiter keeps its place at the head of the order");
    } else {
        assert!(kit::total_wakes() == 0, "[C03] nobody to wake");
    }
    assert!(queue_ok(&w), "[C01] queue consistent after unlock");
    let mut j = 0;
    while j < N {
        assert!(w.futs[j].is_terminated() == (w.st[j] == 3), "[C17] unlocking terminates no future: a notified lock future is not terminated until its poll returned Ready");
        j += 1;
    }
}

fn check_try_lock(fair: bool, queue: &[usize]) {
    let mut w = world(fair);
    unsafe { link(&mut w, queue) };
    let was_locked = w.mx.is_locked();
    kit::arm();
    let g = w.mx.try_lock();
    kit::disarm();
    assert!(g.is_none() || !was_locked, "[C02] try_lock succeeds only on a free mutex");
    assert!(g.is_none() || !fair || w.nq == 0, "[C04] fair: try_lock succeeds only with nobody queued (no barging)");
    assert!(g.is_some() || was_locked || (fair && w.nq > 0), "[C03] try_lock succeeds whenever the mutex is free and (unfair, or nobody queued)");
    assert!(w.mx.is_locked() == (was_locked || g.is_some()), "[C02] is_locked() is true exactly while a guard is alive");
    assert!(kit::total_wakes() == 0, "[C03] try_lock wakes nobody");
    assert!(queue_ok(&w), "[C01] queue untouched by try_lock");
    core::mem::forget(g);
}

#[kani::proof]
fn fresh_future_is_not_terminated() {
    let mx = Mx::new(0, kani::any());
    let f = mx.lock();
    assert!(!f.is_terminated(), "[C17] is_terminated() is false from creation");
    assert!(!mx.is_locked(), "[C02] a new mutex is free");
    assert!(f.wait_node.state == PollState::New && f.wait_node.task.is_none(), "[C03] [C04] a new lock future has not started waiting: it neither holds a notification nor a place in the order");
    assert!(mx.state.lock().waiters.is_empty(), "[C01] creating a future does not touch the queue");
}

macro_rules! inst {
    ($name:ident, $check:ident ( $($arg:expr),* )) => {
        #[kani::proof]
        #[kani::stub(alloc::alloc::alloc, kit::no_alloc)]
        #[kani::stub(alloc::alloc::dealloc, kit::no_dealloc)]
        fn $name() {
            $check($($arg),*);
        }
    };
}
inst!(poll_fair_q, check_poll(true, &[]));
inst!(poll_fair_q0, check_poll(true, &[0]));
inst!(poll_fair_q1, check_poll(true, &[1]));
inst!(poll_fair_q01, check_poll(true, &[0, 1]));
inst!(poll_fair_q10, check_poll(true, &[1, 0]));
inst!(poll_unfair_q, check_poll(false, &[]));
inst!(poll_unfair_q0, check_poll(false, &[0]));
inst!(poll_unfair_q1, check_poll(false, &[1]));
inst!(poll_unfair_q01, check_poll(false, &[0, 1]));
inst!(poll_unfair_q10, check_poll(false, &[1, 0]));
inst!(drop_fair_q, check_drop_future(true, &[]));
inst!(drop_fair_q0, check_drop_future(true, &[0]));
inst!(drop_fair_q1, check_drop_future(true, &[1]));
inst!(drop_fair_q01, check_drop_future(true, &[0, 1]));
inst!(drop_fair_q10, check_drop_future(true, &[1, 0]));
inst!(drop_unfair_q, check_drop_future(false, &[]));
inst!(drop_unfair_q0, check_drop_future(false, &[0]));
inst!(drop_unfair_q1, check_drop_future(false, &[1]));
inst!(drop_unfair_q01, check_drop_future(false, &[0, 1]));
inst!(drop_unfair_q10, check_drop_future(false, &[1, 0]));
inst!(guard_drop_fair_q, check_guard_drop(true, &[]));
inst!(guard_drop_fair_q0, check_guard_drop(true, &[0]));
inst!(guard_drop_fair_q1, check_guard_drop(true, &[1]));
inst!(guard_drop_fair_q01, check_guard_drop(true, &[0, 1]));
inst!(guard_drop_fair_q10, check_guard_drop(true, &[1, 0]));
inst!(guard_drop_unfair_q, check_guard_drop(false, &[]));
inst!(guard_drop_unfair_q0, check_guard_drop(false, &[0]));
inst!(guard_drop_unfair_q1, check_guard_drop(false, &[1]));
inst!(guard_drop_unfair_q01, check_guard_drop(false, &[0, 1]));
inst!(guard_drop_unfair_q10, check_guard_drop(false, &[1, 0]));
inst!(try_lock_fair_q, check_try_lock(true, &[]));
inst!(try_lock_fair_q0, check_try_lock(true, &[0]));
inst!(try_lock_fair_q1, check_try_lock(true, &[1]));
inst!(try_lock_fair_q01, check_try_lock(true, &[0, 1]));
inst!(try_lock_fair_q10, check_try_lock(true, &[1, 0]));
inst!(try_lock_unfair_q, check_try_lock(false, &[]));
inst!(try_lock_unfair_q0, check_try_lock(false, &[0]));
inst!(try_lock_unfair_q1, check_try_lock(false, &[1]));
inst!(try_lock_unfair_q01, check_try_lock(false, &[0, 1]));
inst!(try_lock_unfair_q10, check_try_lock(false, &[1, 0]));

#[kani::proof]
#[kani::should_panic]
fn poll_after_completion_panics() {
    check_poll_after_completion(kani::any(), &[1]);
}
