//! Kani side of the intrusive list (DESIGN.md 5 C20, ledger A1): executable specification predicates used by the
//! `cfg_attr(kani, kani::requires/ensures/modifies)` contracts placed on the real functions in
//! src/intrusive_double_linked_list.rs, and the `proof_for_contract` harnesses that discharge them for every
//! well-formed list of at most N nodes and every choice of argument node.
//!
//! This file is compiled only under `cfg(kani)` as a child module of the list module (private fields visible).
//! GROUP: list
//! MODULE: intrusive_double_linked_list::kani_verif
//! TAGS: C20
//! N: quick=3 thorough=4
//! UNWIND_EXTRA: 3
//! KIND: harness (assume pre / assert post of the in-place contract)
//! BOUNDED: lists of <= N nodes
use super::*;

/// bound on the number of nodes (set by the runner through the environment at build time)
pub const N: usize = match option_env!("VERIF_KANI_N") {
    Some(s) => (s.as_bytes()[0] - b'0') as usize,
    None => 3,
};

pub type View = ([usize; N], usize);

pub fn addr<T>(n: &ListNode<T>) -> usize {
    n as *const ListNode<T> as usize
}
fn paddr<T>(p: Option<NonNull<ListNode<T>>>) -> usize {
    match p {
        Some(p) => p.as_ptr() as usize,
        None => 0,
    }
}

/// head -> tail walk of at most N nodes: prev/next/head/tail mutually consistent
pub fn wf<T>(l: &LinkedList<T>) -> bool {
    unsafe {
        let mut cur = l.head;
        let mut prev: Option<NonNull<ListNode<T>>> = None;
        let mut i = 0;
        while i <= N {
            match cur {
                None => return l.tail == prev,
                Some(c) => {
                    if c.as_ref().prev != prev {
                        return false;
                    }
                    prev = cur;
                    cur = c.as_ref().next;
                }
            }
            i += 1;
        }
        false
    }
}

/// addresses of the linked nodes, front (newest) first
pub fn view<T>(l: &LinkedList<T>) -> View {
    let mut v = [0usize; N];
    let mut len = 0;
    unsafe {
        let mut cur = l.head;
        let mut i = 0;
        while i < N {
            if let Some(c) = cur {
                v[i] = c.as_ptr() as usize;
                len = i + 1;
                cur = c.as_ref().next;
            }
            i += 1;
        }
    }
    (v, len)
}

/// element-wise comparison (avoids memcmp in the model)
pub fn same(a: View, b: View) -> bool {
    let mut ok = a.1 == b.1;
    let mut i = 0;
    while i < N {
        if i < a.1 && a.0[i] != b.0[i] {
            ok = false;
        }
        i += 1;
    }
    ok
}

pub fn len<T>(l: &LinkedList<T>) -> usize {
    view(l).1
}

pub fn contains_addr(v: &View, a: usize) -> bool {
    let mut i = 0;
    let mut r = false;
    while i < N {
        if i < v.1 && v.0[i] == a {
            r = true;
        }
        i += 1;
    }
    r
}

pub fn contains<T>(l: &LinkedList<T>, n: &ListNode<T>) -> bool {
    contains_addr(&view(l), addr(n))
}

pub fn unlinked<T>(n: &ListNode<T>) -> bool {
    n.prev.is_none() && n.next.is_none()
}

/// the documented precondition of `remove`: the node is in this list or in no list at all
pub fn member_or_unlinked<T>(l: &LinkedList<T>, n: &ListNode<T>) -> bool {
    contains(l, n) || (unlinked(n) && l.head != Some(n.into()))
}

/// v with address a pushed at the front
pub fn pushed_front(v: View, a: usize) -> View {
    let mut r = [0usize; N];
    let mut i = 0;
    while i < N {
        if i == 0 {
            r[0] = a;
        } else if i <= v.1 {
            r[i] = v.0[i - 1];
        }
        i += 1;
    }
    (r, v.1 + 1)
}

/// v without address a (order of the rest kept); unchanged if a is not in v
pub fn without(v: View, a: usize) -> View {
    let mut r = [0usize; N];
    let mut j = 0;
    let mut i = 0;
    while i < N {
        if i < v.1 && v.0[i] != a {
            r[j] = v.0[i];
            j += 1;
        }
        i += 1;
    }
    (r, j)
}

pub fn first(v: &View) -> usize {
    if v.1 == 0 {
        0
    } else {
        v.0[0]
    }
}
pub fn last(v: &View) -> usize {
    if v.1 == 0 {
        0
    } else {
        v.0[v.1 - 1]
    }
}

pub fn opt_addr<T>(o: &Option<&mut ListNode<T>>) -> usize {
    match o {
        Some(n) => addr(n),
        None => 0,
    }
}
pub fn opt_addr_ref<T>(o: &Option<&ListNode<T>>) -> usize {
    match o {
        Some(n) => addr(n),
        None => 0,
    }
}
pub fn opt_unlinked<T>(o: &Option<&mut ListNode<T>>) -> bool {
    match o {
        Some(n) => unlinked(n),
        None => true,
    }
}

/// pointer to the neighbour a function may write (falls back to the node itself so that it is always valid)
pub fn prev_or_self<T>(n: &ListNode<T>) -> *mut ListNode<T> {
    match n.prev {
        Some(p) => p.as_ptr(),
        None => n as *const _ as *mut _,
    }
}
pub fn next_or_self<T>(n: &ListNode<T>) -> *mut ListNode<T> {
    match n.next {
        Some(p) => p.as_ptr(),
        None => n as *const _ as *mut _,
    }
}
/// scratch memory that stands in for "no node" in `modifies` clauses (a modifies target must always be a valid pointer)
static mut NO_NODE: [u64; 32] = [0; 32];
pub fn no_node<T>() -> *mut ListNode<T> {
    assert!(core::mem::size_of::<ListNode<T>>() <= 256);
    unsafe { core::ptr::addr_of_mut!(NO_NODE) as *mut ListNode<T> }
}
pub fn tail_or_none<T>(l: &LinkedList<T>) -> *mut ListNode<T> {
    match l.tail {
        Some(p) => p.as_ptr(),
        None => no_node(),
    }
}
pub fn tail_prev_or_none<T>(l: &LinkedList<T>) -> *mut ListNode<T> {
    match l.tail {
        Some(p) => match unsafe { p.as_ref().prev } {
            Some(q) => q.as_ptr(),
            None => no_node(),
        },
        None => no_node(),
    }
}
pub fn head_or_none<T>(l: &LinkedList<T>) -> *mut ListNode<T> {
    match l.head {
        Some(p) => p.as_ptr(),
        None => no_node(),
    }
}
pub fn head_next_or_none<T>(l: &LinkedList<T>) -> *mut ListNode<T> {
    match l.head {
        Some(p) => match unsafe { p.as_ref().next } {
            Some(q) => q.as_ptr(),
            None => no_node(),
        },
        None => no_node(),
    }
}
pub fn head_or<T>(l: &LinkedList<T>, n: &ListNode<T>) -> *mut ListNode<T> {
    match l.head {
        Some(p) => p.as_ptr(),
        None => n as *const _ as *mut _,
    }
}

// ------------------------------------------------------------------------------------------------
// pre-state construction: every well-formed list of k <= N distinct nodes is isomorphic to the canonical one
// laid out in an array (the code only compares addresses for equality).
// ------------------------------------------------------------------------------------------------
pub struct Arena {
    pub nodes: [ListNode<u8>; N],
    pub extra: ListNode<u8>,
}

pub fn arena() -> Arena {
    Arena {
        nodes: core::array::from_fn(|_| ListNode::new(kani::any())),
        extra: ListNode::new(kani::any()),
    }
}

/// links nodes[0..k] into `list` (nodes[0] = head/newest .. nodes[k-1] = tail/oldest); the others stay unlinked
pub unsafe fn build(a: &mut Arena, k: usize) -> LinkedList<u8> {
    let mut list = LinkedList::new();
    let base = a.nodes.as_mut_ptr();
    let mut i = 0;
    while i < N {
        if i < k {
            (*base.add(i)).prev = if i > 0 { Some(NonNull::new_unchecked(base.add(i - 1))) } else { None };
            (*base.add(i)).next = if i + 1 < k { Some(NonNull::new_unchecked(base.add(i + 1))) } else { None };
        }
        i += 1;
    }
    if k > 0 {
        list.head = Some(NonNull::new_unchecked(base));
        list.tail = Some(NonNull::new_unchecked(base.add(k - 1)));
    }
    list
}

fn any_k(max: usize) -> usize {
    let k: usize = kani::any();
    kani::assume(k <= max);
    k
}

// ------------------------------------------------------------------------------------------------
// The contracts.  The `cfg_attr(kani, kani::requires/ensures)` attributes on the real functions call exactly these
// predicates, and so do the plain harnesses below, so both always check the same text.
// ------------------------------------------------------------------------------------------------
pub fn pre_wf<T>(l: &LinkedList<T>) -> bool {
    wf(l)
}
pub fn pre_add_front<T>(l: &LinkedList<T>, node: &ListNode<T>) -> bool {
    wf(l) && len(l) < N && !contains(l, node)
}
/// the node is the new front; everything else keeps its order; links consistent
pub fn post_add_front<T>(l: &LinkedList<T>, node: &ListNode<T>, old_view: View) -> bool {
    wf(l) && same(view(l), pushed_front(old_view, addr(node)))
}
pub fn post_peek_first<T>(l: &LinkedList<T>, r: &Option<&ListNode<T>>) -> bool {
    opt_addr_ref(r) == first(&view(l))
}
pub fn post_peek_last<T>(l: &LinkedList<T>, r: &Option<&ListNode<T>>) -> bool {
    opt_addr_ref(r) == last(&view(l))
}
pub fn post_peek_first_mut<T>(l: &LinkedList<T>, r: &Option<&mut ListNode<T>>, old_view: View) -> bool {
    wf(l) && same(view(l), old_view) && opt_addr(r) == first(&view(l))
}
pub fn post_peek_last_mut<T>(l: &LinkedList<T>, r: &Option<&mut ListNode<T>>, old_view: View) -> bool {
    wf(l) && same(view(l), old_view) && opt_addr(r) == last(&view(l))
}
/// the old front is returned, carries no links, and exactly it is gone
pub fn post_remove_first<T>(l: &LinkedList<T>, r: &Option<&mut ListNode<T>>, old_view: View) -> bool {
    wf(l) && opt_addr(r) == first(&old_view) && opt_unlinked(r) && same(view(l), without(old_view, opt_addr(r)))
}
pub fn post_remove_last<T>(l: &LinkedList<T>, r: &Option<&mut ListNode<T>>, old_view: View) -> bool {
    wf(l) && opt_addr(r) == last(&old_view) && opt_unlinked(r) && same(view(l), without(old_view, opt_addr(r)))
}
pub fn post_is_empty<T>(l: &LinkedList<T>, r: bool) -> bool {
    r == (len(l) == 0)
}
pub fn pre_remove<T>(l: &LinkedList<T>, node: &ListNode<T>) -> bool {
    wf(l) && member_or_unlinked(l, node)
}
/// reports membership; a member is unlinked (no links left) and exactly it is gone, order of the rest kept;
/// a non-member changes nothing
pub fn post_remove<T>(l: &LinkedList<T>, node: &ListNode<T>, r: bool, old_view: View) -> bool {
    wf(l) && r == contains_addr(&old_view, addr(node)) && unlinked(node) && same(view(l), without(old_view, addr(node)))
}

fn any_node(a: &mut Arena) -> *mut ListNode<u8> {
    // any of the N arena nodes, or the extra node that is in no list
    let which = any_k(N);
    if which < N {
        unsafe { a.nodes.as_mut_ptr().add(which) }
    } else {
        &mut a.extra
    }
}

// ---------------- plain harnesses: assume pre, call the REAL function, assert post (quick tier) ----------------
/// contract row `ListNode::new` of prelude/list.vrs: the node wraps exactly `data` (Deref / DerefMut reach it) and carries no links
#[kani::proof]
fn plain_node_new() {
    let x: u8 = kani::any();
    let mut n = ListNode::new(x);
    assert!(n.prev.is_none() && n.next.is_none(), "[C01] a new list node is unlinked");
    assert!(*n == x, "[C01] a new list node wraps exactly its data");
    let y: u8 = kani::any();
    *n = y;
    assert!(*n == y && n.prev.is_none() && n.next.is_none(), "[C01] writing through the node changes its data only");
}

#[kani::proof]
fn plain_remove() {
    let mut a = arena();
    let k = any_k(N);
    let mut list = unsafe { build(&mut a, k) };
    let node = unsafe { &mut *any_node(&mut a) };
    kani::assume(pre_remove(&list, node));
    let v0 = view(&list);
    kani::cover!(contains(&list, node), "member");
    kani::cover!(!contains(&list, node), "non-member");
    let r = unsafe { list.remove(node) };
    assert!(post_remove(&list, node, r, v0));
}

#[kani::proof]
fn plain_add_front() {
    let mut a = arena();
    let k = any_k(N - 1);
    let mut list = unsafe { build(&mut a, k) };
    // the new node: stale links allowed (add_front overwrites them)
    a.extra.prev = if kani::any() { Some((&mut a.nodes[0]).into()) } else { None };
    kani::assume(pre_add_front(&list, &a.extra));
    let v0 = view(&list);
    unsafe { list.add_front(&mut a.extra) };
    assert!(post_add_front(&list, &a.extra, v0));
    kani::cover!(k == N - 1, "largest list");
}

#[kani::proof]
fn plain_remove_first() {
    let mut a = arena();
    let k = any_k(N);
    let mut list = unsafe { build(&mut a, k) };
    kani::assume(pre_wf(&list));
    let v0 = view(&list);
    let lp: *const LinkedList<u8> = &list;
    let r = list.remove_first();
    assert!(post_remove_first(unsafe { &*lp }, &r, v0));
}

#[kani::proof]
fn plain_remove_last() {
    let mut a = arena();
    let k = any_k(N);
    let mut list = unsafe { build(&mut a, k) };
    kani::assume(pre_wf(&list));
    let v0 = view(&list);
    let lp: *const LinkedList<u8> = &list;
    let r = list.remove_last();
    assert!(post_remove_last(unsafe { &*lp }, &r, v0));
}

#[kani::proof]
fn plain_peeks_and_is_empty() {
    let mut a = arena();
    let k = any_k(N);
    let mut list = unsafe { build(&mut a, k) };
    kani::assume(pre_wf(&list));
    let v0 = view(&list);
    let lp: *const LinkedList<u8> = &list;
    assert!(post_is_empty(&list, list.is_empty()));
    assert!(post_peek_first(&list, &list.peek_first()));
    assert!(post_peek_last(&list, &list.peek_last()));
    {
        let r = list.peek_first_mut();
        assert!(post_peek_first_mut(unsafe { &*lp }, &r, v0));
    }
    {
        let r = list.peek_last_mut();
        assert!(post_peek_last_mut(unsafe { &*lp }, &r, v0));
    }
}

// ---------------- function-contract harnesses on the same predicates (thorough tier) ----------------
// TIER: thorough
#[kani::proof_for_contract(LinkedList::remove)]
fn contract_remove() {
    let mut a = arena();
    let k = any_k(N);
    let mut list = unsafe { build(&mut a, k) };
    let which = any_k(N); // which == N: a node that is in no list
    let node: *mut ListNode<u8> = if which < N { unsafe { a.nodes.as_mut_ptr().add(which) } } else { &mut a.extra };
    kani::cover!(which < k, "member");
    kani::cover!(which >= k, "non-member");
    unsafe {
        list.remove(&mut *node);
    }
}

// TIER: thorough
#[kani::proof_for_contract(LinkedList::add_front)]
fn contract_add_front() {
    let mut a = arena();
    let k = any_k(N - 1);
    let mut list = unsafe { build(&mut a, k) };
    // the new node: garbage links allowed (add_front overwrites them)
    a.extra.prev = if kani::any() { Some((&mut a.nodes[0]).into()) } else { None };
    unsafe {
        list.add_front(&mut a.extra);
    }
}

// TIER: thorough
#[kani::proof_for_contract(LinkedList::remove_first)]
fn contract_remove_first() {
    let mut a = arena();
    let k = any_k(N);
    let mut list = unsafe { build(&mut a, k) };
    let _ = list.remove_first();
}

// TIER: thorough
#[kani::proof_for_contract(LinkedList::remove_last)]
fn contract_remove_last() {
    let mut a = arena();
    let k = any_k(N);
    let mut list = unsafe { build(&mut a, k) };
    let _ = list.remove_last();
}

// TIER: thorough
#[kani::proof_for_contract(LinkedList::peek_last_mut)]
fn contract_peek_last_mut() {
    let mut a = arena();
    let k = any_k(N);
    let mut list = unsafe { build(&mut a, k) };
    let _ = list.peek_last_mut();
}

// TIER: thorough
#[kani::proof_for_contract(LinkedList::peek_first_mut)]
fn contract_peek_first_mut() {
    let mut a = arena();
    let k = any_k(N);
    let mut list = unsafe { build(&mut a, k) };
    let _ = list.peek_first_mut();
}

// TIER: thorough
#[kani::proof_for_contract(LinkedList::peek_first)]
fn contract_peek_first() {
    let mut a = arena();
    let k = any_k(N);
    let list = unsafe { build(&mut a, k) };
    let _ = list.peek_first();
}

// TIER: thorough
#[kani::proof_for_contract(LinkedList::peek_last)]
fn contract_peek_last() {
    let mut a = arena();
    let k = any_k(N);
    let list = unsafe { build(&mut a, k) };
    let _ = list.peek_last();
}

// TIER: thorough
#[kani::proof_for_contract(LinkedList::is_empty)]
fn contract_is_empty() {
    let mut a = arena();
    let k = any_k(N);
    let list = unsafe { build(&mut a, k) };
    let _ = list.is_empty();
}

/// drain / reverse_drain take a generic FnMut: checked by a recording closure (bounded harness, not a contract):
/// every linked node is visited exactly once, in front-to-back (resp. back-to-front) order, already unlinked at the
/// time of the call; the list is empty afterwards.
#[kani::proof]
fn harness_reverse_drain() {
    let mut a = arena();
    let k = any_k(N);
    let mut list = unsafe { build(&mut a, k) };
    let v = view(&list);
    let mut seen = [0usize; N];
    let mut cnt = 0usize;
    list.reverse_drain(|n| {
        assert!(unlinked(n));
        assert!(cnt < N);
        seen[cnt] = addr(n);
        cnt += 1;
    });
    assert!(cnt == k);
    assert!(list.head.is_none() && list.tail.is_none());
    let mut i = 0;
    while i < N {
        if i < k {
            assert!(seen[i] == v.0[k - 1 - i]);
        }
        i += 1;
    }
}

#[kani::proof]
fn harness_drain() {
    let mut a = arena();
    let k = any_k(N);
    let mut list = unsafe { build(&mut a, k) };
    let v = view(&list);
    let mut seen = [0usize; N];
    let mut cnt = 0usize;
    list.drain(|n| {
        assert!(unlinked(n));
        assert!(cnt < N);
        seen[cnt] = addr(n);
        cnt += 1;
    });
    assert!(cnt == k);
    assert!(list.head.is_none() && list.tail.is_none());
    let mut i = 0;
    while i < N {
        if i < k {
            assert!(seen[i] == v.0[i]);
        }
        i += 1;
    }
}
