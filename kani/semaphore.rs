//! Kani harnesses for src/sync/semaphore.rs (glue L2 + wake events), borrowed and shared flavour.
//! GROUP: semaphore
//! MODULE: sync::semaphore::kani_verif
//! TAGS: C01 C05 C06 C07 C17 C18
//! N: quick=4 thorough=4
//! UNWIND_EXTRA: 3
//! KIND: harness (concrete queue shape and fairness, symbolic permits / request sizes / remaining state)
//! BOUNDED: N acquire futures; every queue shape enumerated; permits and requests < 8
//! The transitions of `SemaphoreState` are proved for all queue lengths by Verus (unit `semaphore`); these harnesses
//! decide the glue (futures, releasers, shared handles), that every entry marked Notified really had its waker
//! invoked exactly once, and memory safety of the real unsafe code on these shapes.
use super::*;
#[path = "/verif/kani/kit.rs"]
pub mod kit;
use crate::intrusive_double_linked_list::kani_verif as lv;
use core::mem::ManuallyDrop;
use core::task::Context;

pub const N: usize = 2;
type Sem = GenericSemaphore<NoopLock>;
type Fut = GenericSemaphoreAcquireFuture<'static, NoopLock>;

/// the wait node of future i, whichever flavour
pub trait HasNode {
    fn node(&mut self) -> &mut ListNode<WaitQueueEntry>;
    fn node_ref(&self) -> &ListNode<WaitQueueEntry>;
}
impl HasNode for Fut {
    fn node(&mut self) -> &mut ListNode<WaitQueueEntry> {
        &mut self.wait_node
    }
    fn node_ref(&self) -> &ListNode<WaitQueueEntry> {
        &self.wait_node
    }
}
pub struct Shape {
    /// abstract state per future: 0 New, 1 Waiting (queued), 2 Notified (fair: queued as the oldest; unfair: outside
    /// the queue, holding the wake-up), 3 terminated
    pub st: [u8; N],
    pub req: [usize; N],
    pub order: [usize; N],
    pub nq: usize,
    pub fair: bool,
    pub permits: usize,
}

/// an invariant-satisfying state: abstract poll states and queue order are CONCRETE (enumerated by the instance list),
/// permits and request sizes are symbolic
pub fn shape(fair: bool, st: [u8; N], queue: &[usize]) -> Shape {
    let permits: usize = kani::any();
    kani::assume(permits < 8);
    let mut sh = Shape { st, req: [0; N], order: [0; N], nq: queue.len(), fair, permits };
    let mut i = 0;
    while i < N {
        let req: usize = kani::any();
        kani::assume(req < 8);
        sh.req[i] = req;
        let queued = st[i] == 1 || (st[i] == 2 && fair);
        if queued {
            kani::assume(req >= 1); // inv_q: a queued request asks for at least one permit
        }
        if st[i] == 2 && fair {
            kani::assume(req <= permits); // inv_n: a notified fair head fits
        }
        i += 1;
    }
    let mut q = 0;
    while q < queue.len() {
        sh.order[q] = queue[q];
        q += 1;
    }
    sh
}

pub unsafe fn apply<F: HasNode>(sh: &Shape, futs: &mut [ManuallyDrop<F>; N], state: &mut SemaphoreState) {
    let mut i = 0;
    while i < N {
        let n = futs[i].node();
        n.state = match sh.st[i] {
            0 => PollState::New,
            1 => PollState::Waiting,
            2 => PollState::Notified,
            _ => PollState::Done,
        };
        n.required_permits = sh.req[i];
        n.task = if sh.st[i] == 1 || (sh.st[i] == 2 && sh.fair) { Some(kit::waker(i)) } else { None };
        i += 1;
    }
    state.permits = sh.permits;
    let mut q = sh.nq;
    while q > 0 {
        q -= 1;
        let n: *mut ListNode<WaitQueueEntry> = futs[sh.order[q]].node();
        state.waiters.add_front(&mut *n);
    }
}

pub fn nstate(n: &ListNode<WaitQueueEntry>) -> u8 {
    match n.state {
        PollState::New => 0,
        PollState::Waiting => 1,
        PollState::Notified => 2,
        PollState::Done => 3,
    }
}

/// queue well formed; contains exactly the futures that are waiting, each once
pub fn queue_ok<F: HasNode>(fair: bool, futs: &[ManuallyDrop<F>; N], state: &SemaphoreState) -> bool {
    let mut ok = lv::wf(&state.waiters);
    let mut expect = 0;
    let mut i = 0;
    while i < N {
        let s = nstate(futs[i].node_ref());
        let should = s == 1 || (s == 2 && fair);
        if should {
            expect += 1;
        }
        if should != lv::contains(&state.waiters, futs[i].node_ref()) {
            ok = false;
        }
        i += 1;
    }
    ok && lv::len(&state.waiters) == expect
}

/// every OTHER future whose entry was turned Notified by this call had its stored waker invoked exactly once;
/// nobody else was woken
pub fn wake_rule<F: HasNode>(sh: &Shape, futs: &[ManuallyDrop<F>; N], skip: usize) -> bool {
    let mut ok = true;
    let mut i = 0;
    while i < N {
        if i != skip {
            let newly = sh.st[i] == 1 && nstate(futs[i].node_ref()) == 2;
            if kit::wakes(i) != (if newly { 1 } else { 0 }) {
                ok = false;
            }
            // nothing but Waiting -> Notified ever happens to another future
            if !newly && nstate(futs[i].node_ref()) != sh.st[i].min(3) {
                ok = false;
            }
            if futs[i].node_ref().required_permits != sh.req[i] {
                ok = false;
            }
        }
        i += 1;
    }
    ok
}

/// C06 on the state the wrappers leave behind: somebody (other than `skip`) holds an unconsumed wake-up, or nobody waits, or
/// the longest-waiting request does not fit into the free permits.  (The state machine's transitions are proved to keep
/// this by Verus; asserting it here as well catches a WRAPPER that bypasses the state machine, e.g. a "fast path".)
pub fn head_served<F: HasNode>(futs: &[ManuallyDrop<F>; N], state: &SemaphoreState, skip: usize) -> bool {
    let mut i = 0;
    while i < N {
        if i != skip && nstate(futs[i].node_ref()) == 2 {
            return true;
        }
        i += 1;
    }
    match state.waiters.peek_last() {
        None => true,
        Some(h) => h.required_permits > state.permits,
    }
}

// ------------------------------------------------------------------------------------------------
// borrowed flavour
// ------------------------------------------------------------------------------------------------
pub struct World {
    sem: Sem,
    futs: [ManuallyDrop<Fut>; N],
    sh: Shape,
}
fn world(fair: bool, st: [u8; N], queue: &[usize]) -> World {
    let sem = Sem::new(fair, 0);
    let sp: &'static Sem = unsafe { &*(&sem as *const Sem) };
    World { futs: core::array::from_fn(|_| ManuallyDrop::new(sp.acquire(0))), sem, sh: shape(fair, st, queue) }
}
unsafe fn link(w: &mut World) {
    let sp: &'static Sem = &*(&w.sem as *const Sem);
    let mut i = 0;
    while i < N {
        w.futs[i].semaphore = if w.sh.st[i] == 3 { None } else { Some(sp) };
        i += 1;
    }
    let mut st = w.sem.state.lock();
    apply(&w.sh, &mut w.futs, &mut st);
}

fn check_poll(fair: bool, st: [u8; N], queue: &[usize]) {
    let i = 0;
    let mut w = world(fair, st, queue);
    unsafe { link(&mut w) };
    assert!(queue_ok(fair, &w.futs, &w.sem.state.lock()));
    kani::assume(w.sh.st[i] != 3);
    let wk = kit::waker(N + kit::any_lt(2));
    let mut cx = Context::from_waker(&wk);
    let q0 = lv::view(&w.sem.state.lock().waiters);
    kit::arm();
    let r = unsafe { core::pin::Pin::new_unchecked(&mut *w.futs[i]) }.poll(&mut cx);
    let term = w.futs[i].is_terminated();
    kit::disarm();
    assert!(r.is_ready() == term, "[C17] is_terminated() must be true exactly after Ready");
    assert!(queue_ok(fair, &w.futs, &w.sem.state.lock()), "[C01] queue must contain exactly the live waiting futures");
    if w.sh.st[i] == 1 && r.is_pending() {
        // (lesson of seeded change C09_r71, applied to every primitive: a re-poll -- with whatever waker -- must not re-queue)
        assert!(lv::same(q0, lv::view(&w.sem.state.lock().waiters)), "[C07] re-polling a waiting acquire future does not change its place in the order of arrival");
    }
    let now = w.sem.permits();
    match &r {
        core::task::Poll::Ready(rel) => {
            assert!(w.sh.permits >= w.sh.req[i] && now == w.sh.permits - w.sh.req[i], "[C05] an acquisition completes only when n permits are free and takes exactly n");
            assert!(rel.permits == w.sh.req[i], "[C05] the releaser returns exactly the acquired amount");
            if fair && w.sh.req[i] > 0 {
                assert!(w.sh.nq == 0 || w.sh.order[w.sh.nq - 1] == i, "[C07] fair: only the longest-waiting request may complete");
            }
        }
        core::task::Poll::Pending => {
            assert!(now == w.sh.permits, "[C05] a pending poll takes no permits");
            let t = w.futs[i].wait_node.task.as_ref();
            assert!(t.is_some() && t.unwrap().will_wake(&wk), "[C06] a pending future is registered with the waker of its latest poll");
            assert!(w.sh.req[i] > 0, "[C07] a request for zero permits completes immediately");
        }
    }
    assert!(wake_rule(&w.sh, &w.futs, i), "[C06] every request that is notified is woken exactly once through its latest waker; nobody else is woken");
    assert!(kit::wakes(i) == 0, "[C06] a poll does not wake the polled task itself");
    core::mem::forget(r);
}

fn check_poll_after_completion(fair: bool, st: [u8; N], queue: &[usize]) {
    let mut w = world(fair, st, queue);
    unsafe { link(&mut w) };
    kani::assume(w.sh.st[0] == 3);
    let wk = kit::waker(N);
    let mut cx = Context::from_waker(&wk);
    let r = unsafe { core::pin::Pin::new_unchecked(&mut *w.futs[0]) }.poll(&mut cx);
    core::mem::forget(r);
}

fn check_drop_future(fair: bool, st: [u8; N], queue: &[usize]) {
    let i = 0;
    let mut w = world(fair, st, queue);
    unsafe { link(&mut w) };
    let served_before = head_served(&w.futs, &w.sem.state.lock(), N);
    kit::arm();
    unsafe { ManuallyDrop::drop(&mut w.futs[i]) };
    kit::disarm();
    let st = w.sem.state.lock();
    assert!(!served_before || head_served(&w.futs, &st, i), "[C06] cancelling any future (woken or ahead in the queue) leaves the longest-waiting request served: it holds a wake-up or does not fit");
    assert!(!lv::contains(&st.waiters, &w.futs[i].wait_node), "[C01] a dropped future is no longer in the wait queue");
    assert!(st.permits == w.sh.permits, "[C05] cancelling takes and returns no permits");
    assert!(wake_rule(&w.sh, &w.futs, i), "[C06] every request notified by a cancellation is woken exactly once; nobody else is woken");
    assert!(lv::wf(&st.waiters), "[C01] queue consistent after cancellation");
}

fn check_release(fair: bool, st: [u8; N], queue: &[usize]) {
    let mut w = world(fair, st, queue);
    unsafe { link(&mut w) };
    let n: usize = kani::any();
    kani::assume(n < 8);
    let served_before = head_served(&w.futs, &w.sem.state.lock(), N);
    kit::arm();
    w.sem.release(n);
    kit::disarm();
    assert!(w.sem.permits() == w.sh.permits + n, "[C05] release(n) adds exactly n permits");
    assert!(wake_rule(&w.sh, &w.futs, N), "[C06] every request notified by a release is woken exactly once through its latest waker; nobody else is woken");
    assert!(!served_before || head_served(&w.futs, &w.sem.state.lock(), N), "[C06] after release() the longest-waiting request is not stranded: it holds a wake-up or does not fit");
    assert!(queue_ok(fair, &w.futs, &w.sem.state.lock()), "[C01] queue consistent after release");
    let mut j = 0;
    while j < N {
        assert!(w.futs[j].is_terminated() == (st[j] == 3), "[C17] release() terminates no future: a notified acquire future is not terminated until its poll returned Ready");
        j += 1;
    }
}

fn check_releaser(fair: bool, st: [u8; N], queue: &[usize]) {
    let mut w = world(fair, st, queue);
    unsafe { link(&mut w) };
    let sp: &'static Sem = unsafe { &*(&w.sem as *const Sem) };
    let p: usize = kani::any();
    kani::assume(p < 8);
    let served_before = head_served(&w.futs, &w.sem.state.lock(), N);
    let mut rel = GenericSemaphoreReleaser::<'static, NoopLock> { semaphore: sp, permits: p };
    let disarm: bool = kani::any();
    kit::arm();
    if disarm {
        let got = rel.disarm();
        assert!(got == p, "[C05] disarm() reports the amount it withholds");
    }
    drop(rel);
    kit::disarm();
    assert!(w.sem.permits() == w.sh.permits + (if disarm { 0 } else { p }), "[C05] dropping a releaser returns exactly its permits exactly once (zero after disarm)");
    assert!(wake_rule(&w.sh, &w.futs, N), "[C06] every request notified when a releaser is dropped is woken exactly once; nobody else is woken");
    assert!(!served_before || head_served(&w.futs, &w.sem.state.lock(), N), "[C06] after a releaser is dropped the longest-waiting request is not stranded: it holds a wake-up or does not fit");
}

fn check_try_acquire(fair: bool, st: [u8; N], queue: &[usize]) {
    let mut w = world(fair, st, queue);
    unsafe { link(&mut w) };
    let n: usize = kani::any();
    kani::assume(n < 8);
    kit::arm();
    let g = w.sem.try_acquire(n);
    kit::disarm();
    match &g {
        Some(rel) => {
            assert!(w.sh.permits >= n && w.sem.permits() == w.sh.permits - n, "[C05] try_acquire(n) takes exactly n, only when n are free");
            assert!(rel.permits == n, "[C05] the releaser returns exactly the acquired amount");
            assert!(!fair || n == 0 || w.sh.nq == 0, "[C07] fair: try_acquire(n>0) succeeds only with nobody queued");
        }
        None => {
            assert!(w.sem.permits() == w.sh.permits, "[C05] a failed try_acquire takes nothing");
            assert!(n > 0, "[C07] a request for zero permits always succeeds");
        }
    }
    assert!(kit::total_wakes() == 0, "[C06] try_acquire wakes nobody");
    core::mem::forget(g);
}

#[kani::proof]
fn fresh_future_is_not_terminated() {
    let p0: usize = kani::any();
    let sem = Sem::new(kani::any(), p0);
    assert!(sem.permits() == p0, "[C05] permits() starts at the initial count");
    let n: usize = kani::any();
    let f = sem.acquire(n);
    assert!(!f.is_terminated(), "[C17] is_terminated() is false from creation");
    assert!(f.wait_node.state == PollState::New && f.wait_node.task.is_none() && f.wait_node.required_permits == n && f.auto_release, "[C05] [C06] a new acquire future asks for exactly n permits, releases them automatically, and has not started waiting");
    assert!(sem.permits() == p0 && sem.state.lock().waiters.is_empty(), "[C05] [C01] creating a future takes no permits and does not touch the queue");
}

macro_rules! inst {
    ($name:ident, $check:ident ( $($arg:expr),* )) => {
        #[kani::proof]
        #[kani::stub(alloc::alloc::alloc, kit::no_alloc)]
        #[kani::stub(alloc::alloc::dealloc, kit::no_dealloc)]
        fn $name() {
            $check($($arg),*);
        }
    };
}

inst!(poll_fair_s00_q, check_poll(true, [0, 0], &[]));
inst!(poll_fair_s01_q1, check_poll(true, [0, 1], &[1]));
inst!(poll_fair_s02_q1, check_poll(true, [0, 2], &[1]));
inst!(poll_fair_s03_q, check_poll(true, [0, 3], &[]));
inst!(poll_fair_s10_q0, check_poll(true, [1, 0], &[0]));
inst!(poll_fair_s11_q01, check_poll(true, [1, 1], &[0, 1]));
inst!(poll_fair_s11_q10, check_poll(true, [1, 1], &[1, 0]));
inst!(poll_fair_s12_q01, check_poll(true, [1, 2], &[0, 1]));
inst!(poll_fair_s13_q0, check_poll(true, [1, 3], &[0]));
inst!(poll_fair_s20_q0, check_poll(true, [2, 0], &[0]));
inst!(poll_fair_s21_q10, check_poll(true, [2, 1], &[1, 0]));
inst!(poll_fair_s23_q0, check_poll(true, [2, 3], &[0]));
inst!(poll_unfair_s00_q, check_poll(false, [0, 0], &[]));
inst!(poll_unfair_s01_q1, check_poll(false, [0, 1], &[1]));
inst!(poll_unfair_s02_q, check_poll(false, [0, 2], &[]));
inst!(poll_unfair_s03_q, check_poll(false, [0, 3], &[]));
inst!(poll_unfair_s10_q0, check_poll(false, [1, 0], &[0]));
inst!(poll_unfair_s11_q01, check_poll(false, [1, 1], &[0, 1]));
inst!(poll_unfair_s11_q10, check_poll(false, [1, 1], &[1, 0]));
inst!(poll_unfair_s12_q0, check_poll(false, [1, 2], &[0]));
inst!(poll_unfair_s13_q0, check_poll(false, [1, 3], &[0]));
inst!(poll_unfair_s20_q, check_poll(false, [2, 0], &[]));
inst!(poll_unfair_s21_q1, check_poll(false, [2, 1], &[1]));
inst!(poll_unfair_s22_q, check_poll(false, [2, 2], &[]));
inst!(poll_unfair_s23_q, check_poll(false, [2, 3], &[]));
inst!(drop_fair_s00_q, check_drop_future(true, [0, 0], &[]));
inst!(drop_fair_s01_q1, check_drop_future(true, [0, 1], &[1]));
inst!(drop_fair_s02_q1, check_drop_future(true, [0, 2], &[1]));
inst!(drop_fair_s03_q, check_drop_future(true, [0, 3], &[]));
inst!(drop_fair_s10_q0, check_drop_future(true, [1, 0], &[0]));
inst!(drop_fair_s11_q01, check_drop_future(true, [1, 1], &[0, 1]));
inst!(drop_fair_s11_q10, check_drop_future(true, [1, 1], &[1, 0]));
inst!(drop_fair_s12_q01, check_drop_future(true, [1, 2], &[0, 1]));
inst!(drop_fair_s13_q0, check_drop_future(true, [1, 3], &[0]));
inst!(drop_fair_s20_q0, check_drop_future(true, [2, 0], &[0]));
inst!(drop_fair_s21_q10, check_drop_future(true, [2, 1], &[1, 0]));
inst!(drop_fair_s23_q0, check_drop_future(true, [2, 3], &[0]));
inst!(drop_fair_s30_q, check_drop_future(true, [3, 0], &[]));
inst!(drop_fair_s31_q1, check_drop_future(true, [3, 1], &[1]));
inst!(drop_fair_s32_q1, check_drop_future(true, [3, 2], &[1]));
inst!(drop_fair_s33_q, check_drop_future(true, [3, 3], &[]));
inst!(drop_unfair_s00_q, check_drop_future(false, [0, 0], &[]));
inst!(drop_unfair_s01_q1, check_drop_future(false, [0, 1], &[1]));
inst!(drop_unfair_s02_q, check_drop_future(false, [0, 2], &[]));
inst!(drop_unfair_s03_q, check_drop_future(false, [0, 3], &[]));
inst!(drop_unfair_s10_q0, check_drop_future(false, [1, 0], &[0]));
inst!(drop_unfair_s11_q01, check_drop_future(false, [1, 1], &[0, 1]));
inst!(drop_unfair_s11_q10, check_drop_future(false, [1, 1], &[1, 0]));
inst!(drop_unfair_s12_q0, check_drop_future(false, [1, 2], &[0]));
inst!(drop_unfair_s13_q0, check_drop_future(false, [1, 3], &[0]));
inst!(drop_unfair_s20_q, check_drop_future(false, [2, 0], &[]));
inst!(drop_unfair_s21_q1, check_drop_future(false, [2, 1], &[1]));
inst!(drop_unfair_s22_q, check_drop_future(false, [2, 2], &[]));
inst!(drop_unfair_s23_q, check_drop_future(false, [2, 3], &[]));
inst!(drop_unfair_s30_q, check_drop_future(false, [3, 0], &[]));
inst!(drop_unfair_s31_q1, check_drop_future(false, [3, 1], &[1]));
inst!(drop_unfair_s32_q, check_drop_future(false, [3, 2], &[]));
inst!(drop_unfair_s33_q, check_drop_future(false, [3, 3], &[]));
inst!(release_fair_s00_q, check_release(true, [0, 0], &[]));
inst!(release_fair_s01_q1, check_release(true, [0, 1], &[1]));
inst!(release_fair_s02_q1, check_release(true, [0, 2], &[1]));
inst!(release_fair_s03_q, check_release(true, [0, 3], &[]));
inst!(release_fair_s11_q01, check_release(true, [1, 1], &[0, 1]));
inst!(release_fair_s11_q10, check_release(true, [1, 1], &[1, 0]));
inst!(release_fair_s12_q01, check_release(true, [1, 2], &[0, 1]));
inst!(release_fair_s13_q0, check_release(true, [1, 3], &[0]));
inst!(release_fair_s23_q0, check_release(true, [2, 3], &[0]));
inst!(release_fair_s33_q, check_release(true, [3, 3], &[]));
inst!(release_unfair_s00_q, check_release(false, [0, 0], &[]));
inst!(release_unfair_s01_q1, check_release(false, [0, 1], &[1]));
inst!(release_unfair_s02_q, check_release(false, [0, 2], &[]));
inst!(release_unfair_s03_q, check_release(false, [0, 3], &[]));
inst!(release_unfair_s11_q01, check_release(false, [1, 1], &[0, 1]));
inst!(release_unfair_s11_q10, check_release(false, [1, 1], &[1, 0]));
inst!(release_unfair_s12_q0, check_release(false, [1, 2], &[0]));
inst!(release_unfair_s13_q0, check_release(false, [1, 3], &[0]));
inst!(release_unfair_s22_q, check_release(false, [2, 2], &[]));
inst!(release_unfair_s23_q, check_release(false, [2, 3], &[]));
inst!(release_unfair_s33_q, check_release(false, [3, 3], &[]));
inst!(releaser_fair_s00_q, check_releaser(true, [0, 0], &[]));
inst!(releaser_fair_s01_q1, check_releaser(true, [0, 1], &[1]));
inst!(releaser_fair_s02_q1, check_releaser(true, [0, 2], &[1]));
inst!(releaser_fair_s03_q, check_releaser(true, [0, 3], &[]));
inst!(releaser_fair_s11_q01, check_releaser(true, [1, 1], &[0, 1]));
inst!(releaser_fair_s11_q10, check_releaser(true, [1, 1], &[1, 0]));
inst!(releaser_fair_s12_q01, check_releaser(true, [1, 2], &[0, 1]));
inst!(releaser_fair_s13_q0, check_releaser(true, [1, 3], &[0]));
inst!(releaser_fair_s23_q0, check_releaser(true, [2, 3], &[0]));
inst!(releaser_fair_s33_q, check_releaser(true, [3, 3], &[]));
inst!(releaser_unfair_s00_q, check_releaser(false, [0, 0], &[]));
inst!(releaser_unfair_s01_q1, check_releaser(false, [0, 1], &[1]));
inst!(releaser_unfair_s02_q, check_releaser(false, [0, 2], &[]));
inst!(releaser_unfair_s03_q, check_releaser(false, [0, 3], &[]));
inst!(releaser_unfair_s11_q01, check_releaser(false, [1, 1], &[0, 1]));
inst!(releaser_unfair_s11_q10, check_releaser(false, [1, 1], &[1, 0]));
inst!(releaser_unfair_s12_q0, check_releaser(false, [1, 2], &[0]));
inst!(releaser_unfair_s13_q0, check_releaser(false, [1, 3], &[0]));
inst!(releaser_unfair_s22_q, check_releaser(false, [2, 2], &[]));
inst!(releaser_unfair_s23_q, check_releaser(false, [2, 3], &[]));
inst!(releaser_unfair_s33_q, check_releaser(false, [3, 3], &[]));
inst!(try_acquire_fair_s00_q, check_try_acquire(true, [0, 0], &[]));
inst!(try_acquire_fair_s01_q1, check_try_acquire(true, [0, 1], &[1]));
inst!(try_acquire_fair_s02_q1, check_try_acquire(true, [0, 2], &[1]));
inst!(try_acquire_fair_s03_q, check_try_acquire(true, [0, 3], &[]));
inst!(try_acquire_fair_s11_q01, check_try_acquire(true, [1, 1], &[0, 1]));
inst!(try_acquire_fair_s11_q10, check_try_acquire(true, [1, 1], &[1, 0]));
inst!(try_acquire_fair_s12_q01, check_try_acquire(true, [1, 2], &[0, 1]));
inst!(try_acquire_fair_s13_q0, check_try_acquire(true, [1, 3], &[0]));
inst!(try_acquire_fair_s23_q0, check_try_acquire(true, [2, 3], &[0]));
inst!(try_acquire_fair_s33_q, check_try_acquire(true, [3, 3], &[]));
inst!(try_acquire_unfair_s00_q, check_try_acquire(false, [0, 0], &[]));
inst!(try_acquire_unfair_s01_q1, check_try_acquire(false, [0, 1], &[1]));
inst!(try_acquire_unfair_s02_q, check_try_acquire(false, [0, 2], &[]));
inst!(try_acquire_unfair_s03_q, check_try_acquire(false, [0, 3], &[]));
inst!(try_acquire_unfair_s11_q01, check_try_acquire(false, [1, 1], &[0, 1]));
inst!(try_acquire_unfair_s11_q10, check_try_acquire(false, [1, 1], &[1, 0]));
inst!(try_acquire_unfair_s12_q0, check_try_acquire(false, [1, 2], &[0]));
inst!(try_acquire_unfair_s13_q0, check_try_acquire(false, [1, 3], &[0]));
inst!(try_acquire_unfair_s22_q, check_try_acquire(false, [2, 2], &[]));
inst!(try_acquire_unfair_s23_q, check_try_acquire(false, [2, 3], &[]));
inst!(try_acquire_unfair_s33_q, check_try_acquire(false, [3, 3], &[]));

#[kani::proof]
#[kani::should_panic]
fn poll_after_completion_panics() {
    check_poll_after_completion(kani::any(), [3, 1], &[1]);
}

