// D3 (property C11), reproduction against the real crate:
// a shared oneshot-broadcast channel must close implicitly only when its LAST receiver handle is dropped.
// Run: copy to <repo>/tests/ and `cargo test --offline --test d3_oneshot_broadcast_clone_close`.
use futures::executor::block_on;
use futures_intrusive::channel::shared::oneshot_broadcast_channel;

#[test]
fn dropping_one_of_two_receivers_does_not_close() {
    let (sender, receiver) = oneshot_broadcast_channel::<i32>();
    let receiver2 = receiver.clone();
    drop(receiver); // a handle of each side (sender, receiver2) is still alive
    assert!(sender.send(5).is_ok(), "D3: the channel was closed although a receiver handle is still alive");
    assert_eq!(block_on(receiver2.receive()), Some(5));
}

#[test]
fn dropping_the_last_receiver_closes() {
    let (sender, receiver) = oneshot_broadcast_channel::<i32>();
    let receiver2 = receiver.clone();
    drop(receiver);
    drop(receiver2);
    assert!(sender.send(5).is_err());
}
