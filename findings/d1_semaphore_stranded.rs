// Reproduction of D1a / D1b (property C06) against the real crate.
// Run: copy to <repo>/tests/ and `cargo test --offline --test d1_semaphore_stranded`.
use futures::future::Future;
use futures::task::{Context, Poll};
use futures_intrusive::sync::LocalSemaphore;
use futures_test::task::new_count_waker;
use pin_utils::pin_mut;

/// D1a: cancelling a pending request AHEAD of a fitting one must wake the latter.
#[test]
fn d1a_cancel_head_wakes_next() {
    for is_fair in &[true, false] {
        let (wa, ca) = new_count_waker();
        let (wb, cb) = new_count_waker();
        let sem = LocalSemaphore::new(*is_fair, 1);
        let b = sem.acquire(1);
        pin_mut!(b);
        {
            let a = sem.acquire(2);
            pin_mut!(a);
            assert!(a.as_mut().poll(&mut Context::from_waker(&wa)).is_pending());
            // in fair mode b must queue behind a; in unfair mode make it queue by taking the permit first
            if !*is_fair {
                let mut g = sem.try_acquire(1).unwrap();
                assert!(b.as_mut().poll(&mut Context::from_waker(&wb)).is_pending());
                drop(a_keepalive(&mut g));
                // give the permit back: wakes nobody? head is a(2) which does not fit -> correct
                drop(g);
            } else {
                assert!(b.as_mut().poll(&mut Context::from_waker(&wb)).is_pending());
            }
            assert_eq!(ca.get(), 0);
            assert_eq!(cb.get(), 0, "b must not be woken while a(2) is ahead of it");
            assert_eq!(sem.permits(), 1);
            // a (the head, does not fit) is cancelled here
        }
        // now b(1) is the longest-waiting request and fits into the 1 free permit
        assert_eq!(sem.permits(), 1);
        assert_eq!(cb.get(), 1, "fair={}: head request fits but was not woken (stranded)", is_fair);
        match b.as_mut().poll(&mut Context::from_waker(&wb)) { Poll::Ready(_) => {}, Poll::Pending => panic!("b should complete") };
    }
}
fn a_keepalive<T>(_t: &mut T) {}

/// D1b: unfair mode; a woken future that finds too few permits goes back to waiting; the older
/// waiter that now fits must be woken.
#[test]
fn d1b_requeue_wakes_fitting_older_waiter() {
    let (wa, ca) = new_count_waker();
    let (wb, cb) = new_count_waker();
    let sem = LocalSemaphore::new(false, 0);
    let a = sem.acquire(2);
    let b = sem.acquire(1);
    pin_mut!(a);
    pin_mut!(b);
    assert!(a.as_mut().poll(&mut Context::from_waker(&wa)).is_pending());
    assert!(b.as_mut().poll(&mut Context::from_waker(&wb)).is_pending());
    sem.release(2); // wakes a (2 permits), b does not fit into the remainder
    assert_eq!(ca.get(), 1);
    assert_eq!(cb.get(), 0);
    let mut barger = sem.try_acquire(1).expect("unfair: barging allowed");
    barger.disarm(); // keep that permit away for good
    // a re-polls, finds 1 < 2 permits, goes back to waiting (behind b in the order)
    assert!(a.as_mut().poll(&mut Context::from_waker(&wa)).is_pending());
    assert_eq!(sem.permits(), 1);
    // b(1) is the longest-waiting pending request, it fits, nobody holds an unconsumed wake-up
    assert_eq!(cb.get(), 1, "b fits into the free permit but was never woken (stranded)");
}
