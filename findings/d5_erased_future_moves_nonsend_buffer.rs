// D5 (property C16), demonstration against the real crate, safe code only:
// a channel whose buffer type is !Send (it owns an Rc) hands out futures that ARE Send, because the future's
// `unsafe impl Send` only looks at the lock type and the payload type -- the buffer type is erased behind
// `&dyn ChannelReceiveAccess<T>`.  The future is completed on another thread, where it pops from the buffer, i.e.
// touches the Rc (a non-atomic reference count / Cell) from a thread it must never reach.
// Run: copy to <repo>/tests/ and `cargo test --offline --test d5_erased_future_moves_nonsend_buffer -- --nocapture`.
use futures_intrusive::buffer::RingBuf;
use futures_intrusive::channel::GenericChannel;
use std::cell::Cell;
use std::collections::VecDeque;
use std::rc::Rc;
use std::thread::ThreadId;

thread_local! { static CREATED: Cell<Option<Rc<Cell<Option<ThreadId>>>>> = Cell::new(None); }

/// a user-defined ring buffer that is !Send: it shares an Rc<Cell<..>> with the thread that created it
struct RcBuf { q: VecDeque<u32>, last_pop_thread: Rc<Cell<Option<ThreadId>>> }
impl RingBuf for RcBuf {
    type Item = u32;
    fn new() -> Self {
        let rc = Rc::new(Cell::new(None));
        CREATED.with(|c| c.set(Some(rc.clone())));
        RcBuf { q: VecDeque::new(), last_pop_thread: rc }
    }
    fn with_capacity(_: usize) -> Self { Self::new() }
    fn capacity(&self) -> usize { 4 }
    fn len(&self) -> usize { self.q.len() }
    fn can_push(&self) -> bool { self.q.len() < 4 }
    fn push(&mut self, item: u32) { self.q.push_back(item) }
    fn pop(&mut self) -> u32 {
        self.last_pop_thread.set(Some(std::thread::current().id())); // non-atomic write through the Rc
        self.q.pop_front().unwrap()
    }
}

#[test]
fn nonsend_buffer_is_used_from_another_thread() {
    let ch = GenericChannel::<parking_lot::RawMutex, u32, RcBuf>::new();
    let shared = CREATED.with(|c| c.take()).unwrap(); // this thread's handle on the same Rc
    ch.try_send(7).unwrap();
    let fut = ch.receive(); // borrows the (non-Sync) channel ... and is Send
    let main_id = std::thread::current().id();
    std::thread::scope(|s| {
        s.spawn(move || {
            let v = futures::executor::block_on(fut);
            assert_eq!(v, Some(7));
        });
    });
    let popped_on = shared.get().unwrap();
    // the !Send buffer (and the Rc it shares with this thread) was touched by the other thread:
    assert_eq!(popped_on, main_id, "D5: RcBuf::pop ran on {:?}, not on its owner thread {:?}", popped_on, main_id);
}
