#!/usr/bin/env python3
"""Generates the C16 probe programs (DESIGN.md 5 C16).  One example file per probe so that verdicts are independent.

POSITIVE probes are generic functions: the trait solver has to prove the bound for ALL instantiations of the
parameters (M: lock type, T: payload, A: buffer).  NEGATIVE probes use the ambiguity idiom: the program compiles
iff the trait is NOT implemented, so an accidental compile error can never be mistaken for a pass."""
import json, os, sys

PRELUDE = '''#![allow(dead_code, unused_imports, unused_variables)]
use futures_intrusive::buffer::*;
use futures_intrusive::channel::shared::{GenericSender, GenericReceiver, SharedStream, GenericOneshotSender, GenericOneshotReceiver, GenericOneshotBroadcastSender, GenericOneshotBroadcastReceiver, GenericStateSender, GenericStateReceiver, Sender, Receiver, OneshotSender, OneshotReceiver, OneshotBroadcastSender, OneshotBroadcastReceiver, StateSender, StateReceiver};
use futures_intrusive::channel::*;
use futures_intrusive::sync::*;
use futures_intrusive::timer::*;
use lock_api::RawMutex;
use std::cell::Cell;
use std::rc::Rc;
type PL = parking_lot::RawMutex;
fn is_send<T: ?Sized + Send>() {}
fn is_sync<T: ?Sized + Sync>() {}
fn is_unpin<T: ?Sized + Unpin>() {}
// compiles iff `$t` does NOT implement `$tr` (if it does, the marker parameter `_` is ambiguous)
macro_rules! assert_not_impl {
    ($t:ty, $tr:path) => {{
        trait AmbiguousIfImpl<A> { fn some_item() {} }
        impl<T: ?Sized> AmbiguousIfImpl<()> for T {}
        struct Invalid;
        impl<T: ?Sized + $tr> AmbiguousIfImpl<Invalid> for T {}
        let _ = <$t as AmbiguousIfImpl<_>>::some_item;
    }};
}
/// a buffer that is not Send (keeps an Rc) -- users may implement RingBuf themselves
pub struct RcBuf<T>(std::collections::VecDeque<T>, Rc<Cell<usize>>);
impl<T> RingBuf for RcBuf<T> {
    type Item = T;
    fn new() -> Self { RcBuf(Default::default(), Rc::new(Cell::new(0))) }
    fn with_capacity(_: usize) -> Self { Self::new() }
    fn capacity(&self) -> usize { 4 }
    fn len(&self) -> usize { self.0.len() }
    fn can_push(&self) -> bool { self.0.len() < 4 }
    fn push(&mut self, item: T) { self.0.push_back(item) }
    fn pop(&mut self) -> T { self.0.pop_front().unwrap() }
}
'''

P = []  # (name, kind, body, doc)
def pos(name, generics, stmt, doc):
    P.append((name, "positive", "fn probe%s() { %s }\nfn main() {}\n" % (generics, stmt), doc))
def alias(name, prop, generics, param_ty, expected_ty, doc):
    """type-equality probe: compiles iff the public alias `param_ty` IS `expected_ty` (moving a value of one type out as the other)"""
    P.append((name, "alias:" + prop, "fn probe%s(x: %s) -> %s { x }\nfn main() {}\n" % (generics, param_ty, expected_ty), doc))
def neg(name, ty, tr, doc):
    P.append((name, "negative", "fn main() { assert_not_impl!(%s, %s); }\n" % (ty, tr), doc))

M_SYNC = "<M: RawMutex + Sync + 'static, T: Send + 'static>"
M_SS = "<M: RawMutex + Send + Sync + 'static, T: Send + 'static>"
# ---------------- positive: documented Send/Sync facts, for ALL lock types / payloads ----------------
pos("mutex_send", "<M: RawMutex + Send, T: Send>", "is_send::<GenericMutex<M, T>>()", "mutex is Send for Send payload and Send lock")
pos("mutex_sync", "<M: RawMutex + Sync, T: Send>", "is_sync::<GenericMutex<M, T>>()", "mutex is Sync for Send payload and Sync lock")
pos("mutex_lock_future_send", M_SYNC, "is_send::<GenericMutexLockFuture<'static, M, T>>()", "lock future is Send for Send payload")
pos("mutex_guard_sync", "<M: RawMutex + 'static, T: Sync + 'static>", "is_sync::<GenericMutexGuard<'static, M, T>>()", "guard is Sync for Sync payload")
pos("mutex_guard_send", "<M: RawMutex + Sync + 'static, T: Send + 'static>", "is_send::<GenericMutexGuard<'static, M, T>>()", "guard is Send when the mutex is Sync")
pos("semaphore_send_sync", "<M: RawMutex + Send + Sync>", "is_send::<GenericSemaphore<M>>(); is_sync::<GenericSemaphore<M>>()", "semaphore")
pos("semaphore_future_send", "<M: RawMutex + Sync + 'static>", "is_send::<GenericSemaphoreAcquireFuture<'static, M>>(); is_send::<GenericSemaphoreReleaser<'static, M>>()", "acquire future and releaser")
pos("shared_semaphore_send_sync", "<M: RawMutex + Send + Sync + 'static>", "is_send::<GenericSharedSemaphore<M>>(); is_sync::<GenericSharedSemaphore<M>>(); is_send::<GenericSharedSemaphoreAcquireFuture<M>>(); is_send::<GenericSharedSemaphoreReleaser<M>>()", "shared semaphore, its future and releaser")
pos("event_send_sync", "<M: RawMutex + Send + Sync>", "is_send::<GenericManualResetEvent<M>>(); is_sync::<GenericManualResetEvent<M>>()", "event")
pos("event_future_send", "<M: RawMutex + Sync + 'static>", "is_send::<GenericWaitForEventFuture<'static, M>>()", "wait future")
pos("channel_send_sync", "<M: RawMutex + Send + Sync, T: Send, A: RingBuf<Item = T> + Send>", "is_send::<GenericChannel<M, T, A>>(); is_sync::<GenericChannel<M, T, A>>()", "mpmc channel with Send buffer")
pos("channel_futures_send", M_SYNC, "is_send::<ChannelReceiveFuture<'static, M, T>>(); is_send::<ChannelSendFuture<'static, M, T>>()", "mpmc/oneshot futures")
pos("channel_stream_send", "<M: RawMutex + Sync + 'static, T: Send + 'static, A: RingBuf<Item = T> + Send + 'static>", "is_send::<ChannelStream<'static, M, T, A>>()", "stream")
pos("shared_channel_handles_send", "<M: RawMutex + Send + Sync + 'static, T: Send + 'static, A: RingBuf<Item = T> + Send + 'static>", "is_send::<GenericSender<M, T, A>>(); is_send::<GenericReceiver<M, T, A>>(); is_sync::<GenericSender<M, T, A>>(); is_sync::<GenericReceiver<M, T, A>>(); is_send::<SharedStream<M, T, A>>()", "shared mpmc handles")
pos("shared_channel_futures_send", M_SYNC, "is_send::<futures_intrusive::channel::shared::ChannelReceiveFuture<M, T>>(); is_send::<futures_intrusive::channel::shared::ChannelSendFuture<M, T>>()", "shared futures")
pos("oneshot_send_sync", M_SS, "is_send::<GenericOneshotChannel<M, T>>(); is_sync::<GenericOneshotChannel<M, T>>(); is_send::<GenericOneshotSender<M, T>>(); is_send::<GenericOneshotReceiver<M, T>>()", "oneshot")
pos("oneshot_broadcast_send_sync", "<M: RawMutex + Send + Sync + 'static, T: Send + Clone + 'static>", "is_send::<GenericOneshotBroadcastChannel<M, T>>(); is_sync::<GenericOneshotBroadcastChannel<M, T>>(); is_send::<GenericOneshotBroadcastSender<M, T>>(); is_send::<GenericOneshotBroadcastReceiver<M, T>>()", "oneshot broadcast")
pos("state_broadcast_send_sync", "<M: RawMutex + Send + Sync + 'static, T: Send + Clone + 'static>", "is_send::<GenericStateBroadcastChannel<M, T>>(); is_sync::<GenericStateBroadcastChannel<M, T>>(); is_send::<StateReceiveFuture<'static, M, T>>(); is_send::<GenericStateSender<M, T>>(); is_send::<GenericStateReceiver<M, T>>(); is_send::<futures_intrusive::channel::shared::StateReceiveFuture<M, T>>()", "state broadcast")
pos("timer_send_sync", "<M: RawMutex + Send + Sync>", "is_send::<GenericTimerService<M>>(); is_sync::<GenericTimerService<M>>(); is_send::<TimerFuture<'static>>()", "timer service and thread-safe timer future")
pos("std_flavours", "", "is_send::<Mutex<u8>>(); is_sync::<Mutex<u8>>(); is_send::<MutexLockFuture<'static, u8>>(); is_send::<Semaphore>(); is_sync::<Semaphore>(); is_send::<ManualResetEvent>(); is_sync::<ManualResetEvent>(); is_send::<Channel<u8, [u8; 3]>>(); is_sync::<Channel<u8, [u8; 3]>>(); is_send::<Sender<u8>>(); is_send::<Receiver<u8>>(); is_send::<TimerService>(); is_sync::<TimerService>(); is_send::<SharedSemaphore>(); is_send::<StateSender<u8>>(); is_send::<OneshotSender<u8>>(); is_send::<OneshotBroadcastReceiver<u8>>()", "the std type aliases")

# ---------------- negative: !Unpin for every future that embeds a wait node ----------------
FUTS = {
 "mutex_lock_future": "GenericMutexLockFuture<'static, PL, u8>",
 "local_mutex_lock_future": "LocalMutexLockFuture<'static, u8>",
 "semaphore_acquire_future": "GenericSemaphoreAcquireFuture<'static, PL>",
 "shared_semaphore_acquire_future": "GenericSharedSemaphoreAcquireFuture<PL>",
 "wait_for_event_future": "GenericWaitForEventFuture<'static, PL>",
 "channel_receive_future": "ChannelReceiveFuture<'static, PL, u8>",
 "channel_send_future": "ChannelSendFuture<'static, PL, u8>",
 "shared_channel_receive_future": "futures_intrusive::channel::shared::ChannelReceiveFuture<PL, u8>",
 "shared_channel_send_future": "futures_intrusive::channel::shared::ChannelSendFuture<PL, u8>",
 "state_receive_future": "StateReceiveFuture<'static, PL, u8>",
 "shared_state_receive_future": "futures_intrusive::channel::shared::StateReceiveFuture<PL, u8>",
 "timer_future": "TimerFuture<'static>",
 "local_timer_future": "LocalTimerFuture<'static>",
 "channel_stream": "ChannelStream<'static, PL, u8, ArrayBuf<u8, [u8; 2]>>",
 "shared_stream": "SharedStream<PL, u8, ArrayBuf<u8, [u8; 2]>>",
}
for n, t in FUTS.items():
    neg("not_unpin_" + n, t, "Unpin", "a future embedding a wait node must be !Unpin")

# ---------------- negative: local flavours never cross threads ----------------
LOCAL = {
 "local_mutex": "LocalMutex<u8>", "local_mutex_guard": "LocalMutexGuard<'static, u8>", "local_mutex_lock_future": "LocalMutexLockFuture<'static, u8>",
 "local_semaphore": "LocalSemaphore", "local_semaphore_future": "LocalSemaphoreAcquireFuture<'static>", "local_semaphore_releaser": "LocalSemaphoreReleaser<'static>",
 "local_event": "LocalManualResetEvent", "local_event_future": "LocalWaitForEventFuture<'static>",
 "local_channel": "LocalChannel<u8, [u8; 2]>", "local_unbuffered_channel": "LocalUnbufferedChannel<u8>",
 "local_oneshot": "LocalOneshotChannel<u8>", "local_oneshot_broadcast": "LocalOneshotBroadcastChannel<u8>", "local_state_broadcast": "LocalStateBroadcastChannel<u8>",
 "local_timer_service": "LocalTimerService", "local_timer_future": "LocalTimerFuture<'static>",
}
for n, t in LOCAL.items():
    if n != "local_mutex_guard":  # a guard shared by reference only exposes &T: Sync for T: Sync is sound (as for std's MutexGuard)
        neg("not_sync_" + n, t, "Sync", "local flavour must not be Sync")
    neg("not_send_" + n, t, "Send", "local flavour / its future must not be Send")
neg("not_send_local_channel_futures", "ChannelReceiveFuture<'static, lock_api::RawMutexFair, u8>", "Send", "placeholder") if False else None

# ---------------- negative: thread-safe flavours are Send/Sync only for Send payloads ----------------
RC = "Rc<u8>"
neg("mutex_rc_not_sync", "Mutex<%s>" % RC, "Sync", "a mutex over a !Send payload must not be Sync")
neg("mutex_rc_not_send", "Mutex<%s>" % RC, "Send", "a mutex over a !Send payload must not be Send")
neg("mutex_rc_lock_future_not_send", "MutexLockFuture<'static, %s>" % RC, "Send", "a lock future is Send only for T: Send (D2)")
neg("mutex_rc_guard_not_send", "MutexGuard<'static, %s>" % RC, "Send", "a guard over a !Send payload must not be Send")
neg("mutex_cell_guard_not_sync", "MutexGuard<'static, Cell<u8>>", "Sync", "a guard over a !Sync payload must not be Sync")
neg("channel_rc_not_sync", "Channel<%s, [%s; 2]>" % (RC, RC), "Sync", "channel over !Send payload must not be Sync")
neg("channel_rc_not_send", "Channel<%s, [%s; 2]>" % (RC, RC), "Send", "channel over !Send payload must not be Send")
neg("channel_rcbuf_not_sync", "GenericChannel<PL, u8, RcBuf<u8>>", "Sync", "a channel whose buffer is !Send must not be Sync (D4)")
neg("channel_rcbuf_not_send", "GenericChannel<PL, u8, RcBuf<u8>>", "Send", "a channel whose buffer is !Send must not be Send")
neg("channel_rc_receive_future_not_send", "ChannelReceiveFuture<'static, PL, %s>" % RC, "Send", "receive future yields T: must be !Send for !Send T")
neg("channel_rc_send_future_not_send", "ChannelSendFuture<'static, PL, %s>" % RC, "Send", "send future holds T")
neg("shared_channel_rc_receive_future_not_send", "futures_intrusive::channel::shared::ChannelReceiveFuture<PL, %s>" % RC, "Send", "shared receive future")
neg("shared_channel_rc_send_future_not_send", "futures_intrusive::channel::shared::ChannelSendFuture<PL, %s>" % RC, "Send", "shared send future")
neg("sender_rc_not_send", "GenericSender<PL, %s, ArrayBuf<%s, [%s; 2]>>" % (RC, RC, RC), "Send", "shared sender over !Send payload")
neg("receiver_rc_not_send", "GenericReceiver<PL, %s, ArrayBuf<%s, [%s; 2]>>" % (RC, RC, RC), "Send", "shared receiver over !Send payload")
neg("sender_rcbuf_not_send", "GenericSender<PL, u8, RcBuf<u8>>", "Send", "shared sender of a channel with !Send buffer")
neg("oneshot_rc_not_sync", "OneshotChannel<%s>" % RC, "Sync", "oneshot over !Send payload")
neg("oneshot_sender_rc_not_send", "GenericOneshotSender<PL, %s>" % RC, "Send", "oneshot sender over !Send payload")
neg("oneshot_receiver_rc_not_send", "GenericOneshotReceiver<PL, %s>" % RC, "Send", "oneshot receiver over !Send payload")
neg("oneshot_broadcast_rc_not_sync", "OneshotBroadcastChannel<%s>" % RC, "Sync", "oneshot broadcast over !Send payload")
neg("state_broadcast_rc_not_sync", "StateBroadcastChannel<%s>" % RC, "Sync", "state broadcast over !Send payload")
neg("state_receive_future_rc_not_send", "StateReceiveFuture<'static, PL, %s>" % RC, "Send", "state receive future over !Send payload")
neg("state_sender_rc_not_send", "GenericStateSender<PL, %s>" % RC, "Send", "state sender over !Send payload")
neg("noop_lock_futures_not_send", "GenericSemaphoreAcquireFuture<'static, futures_intrusive::NoopLock>", "Send", "futures over the no-op lock never cross threads") if False else None

# ---------------- negative (value level): futures handed out by a channel whose buffer is !Send ----------------
VAL = '''fn main() {
    trait AmbiguousIfSend<A> { fn some_item(&self) {} }
    impl<T: ?Sized> AmbiguousIfSend<()> for T {}
    struct Invalid;
    impl<T: ?Sized + Send> AmbiguousIfSend<Invalid> for T {}
    fn assert_not_send<T, A>(t: &T) where T: AmbiguousIfSend<A> { t.some_item() }
    let ch = GenericChannel::<PL, u8, RcBuf<u8>>::new();
    %s
}
'''
P.append(("channel_rcbuf_receive_future_not_send", "negative", VAL % "let f = ch.receive(); assert_not_send(&f);",
          "the receive future of a (non-Sync) channel with a !Send buffer polls that channel from wherever it is sent: must be !Send (D5)"))
P.append(("channel_rcbuf_send_future_not_send", "negative", VAL % "let f = ch.send(1); assert_not_send(&f);",
          "the send future of a (non-Sync) channel with a !Send buffer: must be !Send (D5)"))

# ---------------- C09: the "unbuffered" convenience aliases name a zero-capacity array buffer (rendezvous) ----------------
alias("local_unbuffered_channel_has_capacity_0", "C09", "<T>", "LocalUnbufferedChannel<T>", "LocalChannel<T, [T; 0]>",
      "LocalUnbufferedChannel<T> is the local array-backed channel with a buffer of length 0")
alias("unbuffered_channel_has_capacity_0", "C09", "<T>", "UnbufferedChannel<T>", "GenericChannel<PL, T, ArrayBuf<T, [T; 0]>>",
      "UnbufferedChannel<T> is the array-backed thread-safe channel with a buffer of length 0")

def main(outdir, repo):
    ex = os.path.join(outdir, "examples")
    os.makedirs(ex, exist_ok=True)
    for f in os.listdir(ex):
        os.remove(os.path.join(ex, f))
    table = []
    for (name, kind, body, doc) in P:
        open(os.path.join(ex, name + ".rs"), "w").write("// %s probe: %s\n%s%s" % (kind, doc, PRELUDE, body))
        table.append({"name": name, "kind": kind.split(":")[0], "prop": kind.split(":")[1] if ":" in kind else "C16", "doc": doc})
    open(os.path.join(outdir, "Cargo.toml"), "w").write('''[package]
name = "c16-probes"
version = "0.0.0"
edition = "2018"
[dependencies]
futures-intrusive = { path = "%s" }
lock_api = "0.4.1"
parking_lot = "0.12.0"
[workspace]
''' % repo)
    os.makedirs(os.path.join(outdir, "src"), exist_ok=True)
    open(os.path.join(outdir, "src", "lib.rs"), "w").write("")
    json.dump(table, open(os.path.join(outdir, "probes.json"), "w"), indent=1)
    return table

if __name__ == "__main__":
    t = main(sys.argv[1], sys.argv[2] if len(sys.argv) > 2 else "/repo")
    print(len(t), "probes")
